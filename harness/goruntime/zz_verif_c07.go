//go:build verif

//verif:bounds the Go-runtime allocator hooks of kernel/goruntime on top of the real vmm.EarlyReserveRegion: reservation cursor arbitrary (aligned, <= the temporary-mapping page), size any 64-bit value for sysReserve; sysAlloc/sysMap sizes in [0, 3 pages] or [2^64-8192, 2^64-1] (the frame allocator / map callback fails within 4 calls for the huge ones)
//verif:assumes bootstrap_go18+.go (body-less go:linkname declarations into the Go runtime, not linkable with this toolchain) is replaced by empty stubs; mapFn, the frame allocator and memsetFn are harness functions (the package's own test seams)
package goruntime

import (
	"unsafe"

	"github.com/ProjectSerenity/firefly/kernel"
	"github.com/ProjectSerenity/firefly/kernel/mm"
	"github.com/ProjectSerenity/firefly/kernel/mm/vmm"
	"github.com/ProjectSerenity/firefly/kernel/zzverif"
)

func vfCursor() uintptr {
	cur := zzverif.Uintptr("cursor")
	zzverif.Assume(zzverif.And(cur <= vmm.VerifTempMappingAddr(), cur&(mm.PageSize-1) == 0))
	vmm.VerifSetEarlyReserveLastUsed(cur)
	return cur
}

// sysReserve: a reservation that is reported as made covers the requested size, below the previous cursor.
func Verif_C07_sysreserve() {
	cur := vfCursor()
	earlyReserveRegionFn = vmm.EarlyReserveRegion
	size := zzverif.Uintptr("size")
	var reserved bool
	var p unsafe.Pointer
	panicked := zzverif.Catch(func() { p = sysReserve(nil, size, &reserved) })
	now := vmm.VerifEarlyReserveLastUsed()
	if panicked {
		zzverif.Reach("refused")
		zzverif.Assert(now == cur, "a request that does not fit reserves nothing")
		return
	}
	zzverif.Reach("reserved")
	zzverif.Assert(reserved, "reported as reserved")
	zzverif.Assert(uintptr(p) == now, "returned address is the start of the reserved region")
	zzverif.Assert(zzverif.And(now <= cur, cur-now >= size), "the reserved region is at least as large as requested and lies below every earlier region")
	zzverif.Assert(now&(mm.PageSize-1) == 0, "page aligned")
}

func vfSize(failAt int) uintptr {
	size := zzverif.Uintptr("size")
	zzverif.Assume(zzverif.Or(size <= 3*mm.PageSize, size >= ^uintptr(0)-2*mm.PageSize+1))
	zzverif.Assume(zzverif.Or(size <= 3*mm.PageSize, zzverif.And(failAt >= 0, failAt <= 3)))
	return size
}

// sysAlloc: nil, or a region that covers the size with exactly the needed pages mapped to freshly allocated frames.
func Verif_C07_sysalloc() {
	cur := vfCursor()
	earlyReserveRegionFn = vmm.EarlyReserveRegion
	failAt := zzverif.Int("failAt")
	allocFail := zzverif.Bool("allocFails")
	size := vfSize(failAt)
	needed := int(size >> mm.PageShift)
	if size&(mm.PageSize-1) != 0 {
		needed++
	}
	n, allocs := 0, 0
	mapErr := &kernel.Error{Module: "verif", Message: "map failed"}
	var firstPage mm.Page
	mm.SetFrameAllocator(func() (mm.Frame, *kernel.Error) {
		allocs++
		if allocFail && allocs-1 == failAt {
			return mm.InvalidFrame, mapErr
		}
		return mm.Frame(0x1000 + allocs), nil
	})
	mapFn = func(p mm.Page, f mm.Frame, fl vmm.PageTableEntryFlag) *kernel.Error {
		zzverif.Assert(n < needed, "no page beyond those needed to cover the size is mapped")
		if n == 0 {
			firstPage = p
		}
		zzverif.Assert(p == firstPage+mm.Page(n), "consecutive pages")
		n++
		if !allocFail && n-1 == failAt {
			return mapErr
		}
		return nil
	}
	memsetFn = func(uintptr, byte, uintptr) {}
	var stat uint64
	p := sysAlloc(size, &stat)
	now := vmm.VerifEarlyReserveLastUsed()
	if p == nil {
		zzverif.Reach("nil")
		return
	}
	zzverif.Reach("allocated")
	zzverif.Assert(uintptr(p) == now, "returned address is the start of the reserved region")
	zzverif.Assert(zzverif.And(now <= cur, cur-now >= size), "the region handed to the Go allocator is at least as large as requested and lies below every earlier region")
	zzverif.Assert(n == needed, "exactly the pages needed to cover the size are mapped")
	zzverif.Assert(zzverif.Or(needed == 0, firstPage == mm.PageFromAddress(now)), "the mapping starts at the reserved region")
}

// sysMap: maps exactly the pages needed to cover the size, starting at the (rounded-up) address.
func Verif_C07_sysmap() {
	failAt := zzverif.Int("failAt")
	size := vfSize(failAt)
	addr := zzverif.Uintptr("addr")
	zzverif.Assume(zzverif.And(addr >= mm.PageSize, addr <= vmm.VerifTempMappingAddr())) // inside a reserved region: never page 0
	needed := int(size >> mm.PageShift)
	if size&(mm.PageSize-1) != 0 {
		needed++
	}
	n := 0
	mapErr := &kernel.Error{Module: "verif", Message: "map failed"}
	start := (addr + mm.PageSize - 1) &^ (mm.PageSize - 1)
	mapFn = func(p mm.Page, f mm.Frame, fl vmm.PageTableEntryFlag) *kernel.Error {
		zzverif.Assert(n < needed, "no page beyond those needed to cover the size is mapped")
		zzverif.Assert(p == mm.PageFromAddress(start)+mm.Page(n), "consecutive pages from the region start")
		zzverif.Assert(f == vmm.ReservedZeroedFrame, "lazily mapped to the shared zero frame")
		zzverif.Assert(fl&vmm.FlagRW == 0, "never writable")
		n++
		if n-1 == failAt {
			return mapErr
		}
		return nil
	}
	var stat uint64
	p := sysMap(unsafe.Pointer(addr), size, true, &stat)
	if p == nil {
		zzverif.Reach("nil")
		zzverif.Assert(zzverif.Or(zzverif.And(failAt >= 0, failAt < n), size > ^uintptr(0)-mm.PageSize+1), "nil only after a mapping error or for a size that cannot be rounded up to a page multiple")
		return
	}
	zzverif.Reach("mapped")
	zzverif.Assert(uintptr(p) == start, "returns the region start")
	zzverif.Assert(n == needed, "exactly the pages needed to cover the size are mapped")
}
