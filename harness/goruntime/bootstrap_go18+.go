//go:build go1.8
// +build go1.8

// Verification overlay: replaces kernel/goruntime/bootstrap_go18+.go, which only declares (body-less, via
// go:linkname) hooks into the Go runtime that current toolchains refuse to link. The hooks get empty bodies here;
// none of them is part of the code the C07 harnesses execute except mSysStatInc (a statistics counter).
package goruntime

func algInit()                         {}
func modulesInit()                     {}
func typeLinksInit()                   {}
func itabsInit()                       {}
func mallocInit()                      {}
func mSysStatInc(s *uint64, n uintptr) { *s += uint64(n) }
func procResize(int32) uintptr         { return 0 }
