//go:build verif

//verif:bounds device bring-up: D registered drivers (quick 3, thorough 4), each with an arbitrary detection order (all 256 values), kind console / terminal / other, probe returning nil or a driver, initialisation failing or not; registration in creation order (the real sort must establish probe order)
//verif:assumes mock drivers record their calls; consoles do not implement LogoSetter/FontSetter (logo/font selection and the boot command line are outside); driver names/versions fixed so that the expected log text is known
package hal

import (
	"image/color"
	"io"

	"github.com/ProjectSerenity/firefly/kernel"
	"github.com/ProjectSerenity/firefly/kernel/device"
	"github.com/ProjectSerenity/firefly/kernel/device/tty"
	"github.com/ProjectSerenity/firefly/kernel/device/video/console"
	"github.com/ProjectSerenity/firefly/kernel/kfmt"
	"github.com/ProjectSerenity/firefly/kernel/zzverif"
)

type vfBase struct {
	id       int
	initFail bool
	log      *vfLog
}

type vfLog struct {
	probed [6]int
	np     int
	inited [6]int
	ni     int
}

var vfInitErr = &kernel.Error{Module: "mock", Message: "x"}

func (b *vfBase) DriverName() string                      { return "m" }
func (b *vfBase) DriverVersion() (uint16, uint16, uint16) { return 0, 0, 0 }
func (b *vfBase) DriverInit(w io.Writer) *kernel.Error {
	b.log.inited[b.log.ni] = b.id
	b.log.ni++
	if b.initFail {
		return vfInitErr
	}
	return nil
}

type vfOther struct{ vfBase }

type vfCons struct{ vfBase }

func (c *vfCons) Dimensions(console.Dimension) (uint32, uint32) { return 80, 25 }
func (c *vfCons) DefaultColors() (uint8, uint8)                 { return 7, 0 }
func (c *vfCons) Fill(x, y, w, h uint32, fg, bg uint8)          {}
func (c *vfCons) Scroll(console.ScrollDir, uint32)              {}
func (c *vfCons) Write(ch byte, fg, bg uint8, x, y uint32)      {}
func (c *vfCons) Palette() color.Palette                        { return nil }
func (c *vfCons) SetPaletteColor(uint8, color.RGBA)             {}

type vfTTY struct {
	vfBase
	attached          console.Device
	nattach           int
	state             tty.State
	recv              [160]byte
	nrecv             int
	recvWhileDetached int
}

func (t *vfTTY) Write(p []byte) (int, error) {
	for _, b := range p {
		t.WriteByte(b)
	}
	return len(p), nil
}
func (t *vfTTY) WriteByte(b byte) error {
	if t.attached == nil {
		t.recvWhileDetached++
	}
	if t.nrecv < len(t.recv) {
		t.recv[t.nrecv] = b
	}
	t.nrecv++
	return nil
}

// AttachTo behaves like the shipped VT's: attaching (re)allocates the terminal's buffer, so whatever the terminal
// showed before is gone (a second attach of the live terminal would wipe the boot log: seeded C16-w5m1).
func (t *vfTTY) AttachTo(c console.Device)        { t.attached = c; t.nattach++; t.nrecv = 0 }
func (t *vfTTY) State() tty.State                 { return t.state }
func (t *vfTTY) SetState(s tty.State)             { t.state = s }
func (t *vfTTY) CursorPosition() (uint32, uint32) { return 1, 1 }
func (t *vfTTY) SetCursorPosition(x, y uint32)    {}

func vfPuts(dst *[160]byte, n int, s string) int {
	for i := 0; i < len(s); i++ {
		if n < len(dst) {
			dst[n] = s[i]
		}
		n++
	}
	return n
}

//verif:split 5
func Verif_C16_bringup() {
	nd := zzverif.Param("drivers", 3, 4)
	device.VerifResetDrivers()
	kfmt.VerifResetLog()
	devices = managedDevices{}
	strBuf.Reset()
	lg := &vfLog{}
	var kind [4]int
	var order [4]int8
	var probeNil, initFail [4]bool
	var drv [4]device.Driver
	var ttys [4]*vfTTY
	var conss [4]*vfCons
	for i := 0; i < nd; i++ {
		id := i
		kind[i] = zzverif.Choice("kind", 3)
		order[i] = int8(zzverif.U8("order"))
		probeNil[i] = zzverif.Choice("probenil", 2) == 1
		initFail[i] = zzverif.Choice("initfail", 2) == 1
		base := vfBase{id: id, initFail: initFail[i], log: lg}
		switch kind[i] {
		case 0:
			conss[i] = &vfCons{base}
			drv[i] = conss[i]
		case 1:
			ttys[i] = &vfTTY{vfBase: base}
			drv[i] = ttys[i]
		default:
			drv[i] = &vfOther{base}
		}
		d := drv[i]
		pn := probeNil[i]
		device.RegisterDriver(&device.DriverInfo{Order: device.DetectOrder(order[i]), Probe: func() device.Driver {
			lg.probed[lg.np] = id
			lg.np++
			if pn {
				return nil
			}
			return d
		}})
	}
	DetectHardware()
	zzverif.Reach("detected")
	zzverif.Assert(lg.np == nd, "every registered driver is probed exactly once")
	for k := 1; k < lg.np; k++ {
		zzverif.Assert(order[lg.probed[k-1]] <= order[lg.probed[k]], "drivers are probed in non-decreasing detection order, whatever the registration order")
	}
	// reference: walk the probe order
	firstCons, firstTTY := -1, -1
	linkedAt := -1 // index in probe order after which the pair is linked
	var exp [160]byte
	ne := 0
	nInit := 0
	for k := 0; k < lg.np; k++ {
		id := lg.probed[k]
		if probeNil[id] {
			continue
		}
		zzverif.Assert(nInit < lg.ni && lg.inited[nInit] == id, "a probed driver is initialised before the next one is probed")
		nInit++
		ne = vfPuts(&exp, ne, "[hal] m(0.0.0): ")
		if initFail[id] {
			ne = vfPuts(&exp, ne, "init failed: x\n")
			continue
		}
		ne = vfPuts(&exp, ne, "initialized\n")
		if kind[id] == 0 && firstCons < 0 {
			firstCons = id
		}
		if kind[id] == 1 && firstTTY < 0 {
			firstTTY = id
		}
		if linkedAt < 0 && firstCons >= 0 && firstTTY >= 0 {
			linkedAt = k
		}
	}
	zzverif.Assert(lg.ni == nInit, "drivers whose probe returned nothing are not initialised")
	for _, d := range devices.activeDrivers {
		b, isCons := d.(*vfCons)
		if isCons {
			zzverif.Assert(!b.initFail, "a driver whose initialisation failed never becomes active")
		}
		if t, isTTY := d.(*vfTTY); isTTY {
			zzverif.Assert(!t.initFail, "a driver whose initialisation failed never becomes active")
		}
		if o, isO := d.(*vfOther); isO {
			zzverif.Assert(!o.initFail, "a driver whose initialisation failed never becomes active")
		}
	}
	if firstTTY < 0 {
		zzverif.Assert(ActiveTTY() == nil, "no terminal initialised: no active terminal")
	} else {
		zzverif.Assert(ActiveTTY() == tty.Device(ttys[firstTTY]), "the first terminal to initialise is the active terminal")
	}
	if firstCons < 0 {
		zzverif.Assert(devices.activeConsole == nil, "no console initialised: no active console")
	} else {
		zzverif.Assert(devices.activeConsole == console.Device(conss[firstCons]), "the first console to initialise is the active console")
	}
	for i := 0; i < nd; i++ {
		if ttys[i] != nil && i != firstTTY {
			zzverif.Assert(ttys[i].nattach == 0 && ttys[i].nrecv == 0 && ttys[i].state == tty.StateInactive, "only the first terminal is attached, activated or written to")
		}
	}
	if firstCons >= 0 && firstTTY >= 0 {
		zzverif.Reach("linked")
		t := ttys[firstTTY]
		zzverif.Assert(t.attached == console.Device(conss[firstCons]), "whichever comes up first, the terminal ends up attached to the console")
		zzverif.Assert(t.state == tty.StateActive, "and active")
		zzverif.Assert(kfmt.GetOutputSink() == io.Writer(t), "and receives kernel log output")
		zzverif.Assert(t.nattach == 1, "the active terminal is attached once: later terminals and consoles do not re-link the live pair")
		zzverif.Assert(t.recvWhileDetached == 0, "no log output is sent to a terminal that is not attached to a console")
		zzverif.Assert(t.nrecv == ne, "everything logged appears on the terminal exactly once")
		if t.nrecv == ne {
			for i := 0; i < ne && i < len(exp); i++ {
				zzverif.Assert(t.recv[i] == exp[i], "early log first and in order, then later output")
			}
		}
	} else if firstTTY >= 0 {
		zzverif.Assert(ttys[firstTTY].nrecv == 0, "a terminal without a console receives nothing")
	}
}
