//go:build verif

//verif:bounds memory map of E entries (quick 2, thorough 3), address/length/type fully symbolic (any 32-bit type), sorted and non-overlapping, addresses < 2^52, each entry <= 130 frames + unaligned slack; kernel start page-aligned, kernel size 1 byte..3 pages, inside one available entry
//verif:assumes Pre(bootalloc): allocCount=0 and lastAllocFrame=0, or allocCount>0 and lastAllocFrame is a usable frame (wholly inside an available entry, outside the kernel image)
//verif:override github.com/ProjectSerenity/firefly/kernel/kfmt.Printf vfNoPrintf
package pmm

import (
	"github.com/ProjectSerenity/firefly/kernel/mm"
	"github.com/ProjectSerenity/firefly/kernel/zzverif"
)

// One early allocation from an arbitrary valid allocator state.
func Verif_C02_bootalloc_step() {
	m := vfBuildMemMap(zzverif.Param("entries", 2, 3), 130)
	var alloc BootMemAllocator
	alloc.init(uintptr(m.kstart), uintptr(m.kend))
	zzverif.Assert(uint64(alloc.kernelStartFrame) == m.kStartFrame, "kernel start frame")
	zzverif.Assert(uint64(alloc.kernelEndFrame) == m.kEndFrm, "kernel end frame")
	c := zzverif.U64("allocCount")
	l := zzverif.U64("lastAllocFrame")
	zzverif.Assume(zzverif.Or(zzverif.And(c == 0, l == 0), zzverif.And(c > 0, m.usable(l))))
	alloc.allocCount = c
	alloc.lastAllocFrame = mm.Frame(l)
	f, err := alloc.AllocFrame()
	if err != nil {
		zzverif.Reach("oom")
		zzverif.Assert(err == errBootAllocOutOfMemory, "error identity")
		zzverif.Assert(f == mm.InvalidFrame, "no frame is returned with the error")
		zzverif.Assert(alloc.allocCount == c, "a failed allocation is not counted")
		return
	}
	zzverif.Reach("ok")
	fr := uint64(f)
	zzverif.Assert(m.usable(fr), "returned frame lies wholly inside available RAM and outside the kernel image")
	zzverif.Assert(zzverif.Or(c == 0, fr > l), "returned frame is strictly above every earlier frame")
	zzverif.Assert(alloc.allocCount == c+1, "allocation counted")
	zzverif.Assert(uint64(alloc.lastAllocFrame) == fr, "last frame recorded")
}

// Note: "out-of-memory only when no usable frame remains" is deliberately NOT
// asserted: the property states the other direction only, and the allocator does
// skip usable frames in corner cases (frame 0; a region that directly follows a
// region wholly covered by the kernel image).

// k allocations, reset as reserveEarlyAllocatorFrames does, k allocations again: same frames, same order.
func Verif_C02_bootalloc_replay() {
	m := vfBuildMemMap(2, 130)
	bootMemAllocator = BootMemAllocator{}
	bootMemAllocator.init(uintptr(m.kstart), uintptr(m.kend))
	k := 2
	var first [3]mm.Frame
	var ok1 [3]bool
	for i := 0; i < k; i++ {
		f, err := bootMemAllocator.AllocFrame()
		first[i], ok1[i] = f, err == nil
		if err != nil {
			break
		}
	}
	n := bootMemAllocator.allocCount
	bootMemAllocator.allocCount, bootMemAllocator.lastAllocFrame = 0, 0
	for i := uint64(0); i < n; i++ {
		f, err := bootMemAllocator.AllocFrame()
		zzverif.Reach("replayed")
		zzverif.Assert(err == nil, "replayed allocation succeeds")
		zzverif.Assert(f == first[i], "replay returns the same frame in the same order")
	}
	zzverif.Assert(bootMemAllocator.allocCount == n, "same number of allocations after replay")
}
