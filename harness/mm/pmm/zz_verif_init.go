//go:build verif

//verif:bounds init lemma: memory map of E entries (quick 2, thorough 3) with symbolic address/length/type (sorted, non-overlapping, < 2^52, <= 130 frames + slack each), kernel 1 byte..3 pages page-aligned inside one available entry, 0..2 early allocations made before hand-over; init_two_pools: the same lemma on two-entry maps drawn from a menu of concrete layouts (frame counts 40/64/65/100, adjacent or with a 3-page gap, kernel of 1 or 3 pages at the start of either entry)
//verif:assumes the early allocations made before hand-over succeeded (otherwise boot has already failed); allocator metadata fits in one page (true for <= 3 pools of <= 130 frames)
//verif:override github.com/ProjectSerenity/firefly/kernel/kfmt.Printf vfNoPrintf
package pmm

import (
	"unsafe"

	"github.com/ProjectSerenity/firefly/kernel"
	"github.com/ProjectSerenity/firefly/kernel/mm"
	"github.com/ProjectSerenity/firefly/kernel/mm/vmm"
	"github.com/ProjectSerenity/firefly/kernel/zzverif"
)

const vfMetaBase = uintptr(0x30000000)

// vfInitLemma runs the real allocator hand-over on an arbitrary memory map and
// checks that the resulting state is exactly the representation invariant R
// with precisely the kernel and early-boot frames marked.
func vfInitLemma() {
	ne := zzverif.Param("entries", 1, 2)
	if vfMenu {
		ne = 2
	}
	m := vfBuildMemMap(ne, 130)
	bootMemAllocator = BootMemAllocator{}
	bootMemAllocator.init(uintptr(m.kstart), uintptr(m.kend))
	zzverif.Assert(zzverif.And(uint64(bootMemAllocator.kernelStartFrame) == m.kStartFrame, uint64(bootMemAllocator.kernelEndFrame) == m.kEndFrm), "the frames of the kernel image are identified exactly")

	var taken [8]uint64 // frames handed out by the early allocator (before and during init)
	nt := 0
	e := zzverif.Choice("early", zzverif.Param("early", 2, 3))
	for i := 0; i < e; i++ {
		f, err := earlyAllocFrame()
		zzverif.Assume(err == nil)
		taken[nt] = uint64(f)
		nt++
	}

	meta := zzverif.Region("meta", vfMetaBase, 4096, 1)
	metaBase := uintptr(unsafe.Pointer(&meta[0]))
	reserveRegionFn = func(size uintptr) (uintptr, *kernel.Error) {
		zzverif.Assert(zzverif.Or(size == 0, size == 4096), "allocator metadata fits in the one page this harness provides")
		return metaBase, nil
	}
	mapFn = func(page mm.Page, frame mm.Frame, flags vmm.PageTableEntryFlag) *kernel.Error {
		zzverif.Assert(page.Address() == metaBase, "metadata page mapped at the reserved address")
		if nt < len(taken) {
			taken[nt] = uint64(frame)
			nt++
		}
		return nil
	}
	bitmapAllocator = BitmapAllocator{}
	var err *kernel.Error
	panicked := zzverif.Catch(func() { err = bitmapAllocator.init() })
	zzverif.Assert(!panicked, "initialising the allocator never crashes")
	if panicked {
		return
	}
	if err != nil {
		zzverif.Reach("init-oom")
		zzverif.Assert(err == errBootAllocOutOfMemory, "initialisation fails only with out-of-memory")
		return
	}
	zzverif.Reach("init-ok")
	alloc := &bitmapAllocator
	// every frame the early allocator handed out is usable RAM (so inside a pool, outside the kernel) and they ascend strictly
	for i := 0; i < nt; i++ {
		zzverif.Assert(m.usable(taken[i]), "early frames lie in available RAM outside the kernel")
		if i > 0 {
			zzverif.Assert(taken[i] > taken[i-1], "early frames are pairwise distinct (ascending)")
		}
	}
	pool := 0
	var sumN, sumFree uint64
	for i := 0; i < ne; i++ {
		if !m.available(i) || m.frameCount(i) == 0 {
			continue // entries that are not available RAM or hold no whole frame get no pool
		}
		zzverif.Assert(pool < len(alloc.pools), "one pool per available entry that holds a whole frame")
		if pool >= len(alloc.pools) {
			return
		}
		p := &alloc.pools[pool]
		start, cnt := m.firstFrame(i), m.frameCount(i)
		zzverif.Assert(uint64(p.startFrame) == start, "pool starts at the first whole frame of the entry")
		zzverif.Assert(uint64(p.endFrame) == m.endFrameExcl(i)-1, "pool ends at the last whole frame of the entry")
		words := int(zzverif.Split("words", (cnt+63)>>6, 4))
		zzverif.Assert(len(p.freeBitmap) == words, "bitmap has one bit per frame, padded to 64")
		if len(p.freeBitmap) != words {
			return
		}
		// number of reserved frames inside this pool (kernel frames and early frames are pairwise distinct: asserted below)
		inPool := func(f uint64, valid bool) bool {
			return zzverif.And(valid, zzverif.And(f >= start, f < start+cnt))
		}
		var marked uint64
		for k := uint64(0); k < 4; k++ {
			marked += zzverif.IteU64(inPool(m.kStartFrame+k, m.kStartFrame+k <= m.kEndFrm), 1, 0)
		}
		for t := 0; t < nt; t++ {
			marked += zzverif.IteU64(inPool(taken[t], true), 1, 0)
		}
		for w := 0; w < words && w < vfMaxW; w++ {
			word := p.freeBitmap[w]
			// expected word: the OR of the one-hot masks of every reserved frame that falls into this word
			lo := start + uint64(64*w)
			maskOf := func(f uint64, valid bool) uint64 {
				in := zzverif.And(inPool(f, valid), zzverif.And(f >= lo, f < lo+64))
				return zzverif.IteU64(in, uint64(1)<<(63-((f-lo)&63)), 0)
			}
			var exp uint64
			for k := uint64(0); k < 4; k++ {
				exp |= maskOf(m.kStartFrame+k, m.kStartFrame+k <= m.kEndFrm)
			}
			for t := 0; t < nt; t++ {
				exp |= maskOf(taken[t], true)
			}
			zzverif.Assert(word == exp, "exactly the kernel image and early-boot frames are marked; padding bits clear")
		}
		// freeCount = n - (number of marked frames); with the masks one-hot and the frames pairwise
		// distinct this is n - popcount(words) (Verif_C03_popcount_lemma)
		zzverif.Assert(uint64(p.freeCount) == cnt-marked, "freeCount equals the number of clear in-range bits")
		sumN += cnt
		sumFree += cnt - marked
		pool++
	}
	zzverif.Assert(pool == len(alloc.pools), "no pool without an available entry that holds a whole frame")
	zzverif.Assert(uint64(alloc.totalPages) == sumN, "totalPages is the number of usable frames of all pools")
	zzverif.Assert(uint64(alloc.reservedPages) == sumN-sumFree, "reservedPages agrees with the bitmaps")
}

//verif:split 8
//verif:concretize 6
func Verif_C01_init_lemma() { vfMenu = false; vfInitLemma() }

// The same lemma on two-entry maps drawn from a menu of concrete layouts (two pools whose bitmaps lie next to each
// other in the metadata page: frame counts 40/64/65/100, adjacent or with a gap, kernel at the start of either).
// The symbolic two-entry lemma is the thorough tier's; this one keeps two-pool layouts in the quick tier.
//verif:split 8
func Verif_C01_init_two_pools() { vfMenu = true; vfInitLemma() }

//verif:split 8
//verif:concretize 6
func Verif_C03_init_lemma() { vfMenu = false; vfInitLemma() }
