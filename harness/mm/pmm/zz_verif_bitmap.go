//go:build verif

//verif:bounds step lemmas: P pools (quick 2, thorough 3), each with 1..W bitmap words (quick 2, thorough 3), i.e. 1..64*W frames per pool, start frames < 2^40; every bitmap word, counter and frame argument fully symbolic
//verif:assumes R(alloc): pools sorted and disjoint; len(freeBitmap)=ceil(n/64); freeCount = n - popcount(words); padding bits clear; reservedPages = sum(n_i - freeCount_i); totalPages = sum n_i
package pmm

import (
	"unsafe"

	"github.com/ProjectSerenity/firefly/kernel/mm"
	"github.com/ProjectSerenity/firefly/kernel/zzverif"
)

const (
	vfMaxP = 3
	vfMaxW = 3
)

func vfPop(w uint64) uint64 {
	var c uint64
	for i := uint64(0); i < 64; i++ {
		c += (w >> i) & 1
	}
	return c
}

type vfState struct {
	np        int
	nw        [vfMaxP]int
	start, n  [vfMaxP]uint64
	words     [vfMaxP][vfMaxW]uint64
	freeCount [vfMaxP]uint32
	reserved  uint32
	total     uint32
}

// vfSetup builds an arbitrary allocator state satisfying R directly (no init).
func vfSetup(alloc *BitmapAllocator) *vfState {
	st := &vfState{}
	st.np = zzverif.Param("pools", 2, 3)
	maxW := zzverif.Param("words", 2, 3)
	alloc.pools = make([]framePool, st.np)
	var sumN, sumFree uint64
	prevEnd := uint64(0)
	for p := 0; p < st.np; p++ {
		nw := 1 + zzverif.Choice("words", maxW)
		st.nw[p] = nw
		st.start[p] = zzverif.U64("start")
		st.n[p] = zzverif.U64("n")
		zzverif.Assume(zzverif.And(st.n[p] > uint64(64*(nw-1)), st.n[p] <= uint64(64*nw)))
		zzverif.Assume(st.start[p] < 1<<40)
		if p > 0 {
			zzverif.Assume(st.start[p] > prevEnd)
		}
		prevEnd = st.start[p] + st.n[p] - 1
		alloc.pools[p].startFrame = mm.Frame(st.start[p])
		alloc.pools[p].endFrame = mm.Frame(prevEnd)
		alloc.pools[p].freeBitmap = make([]uint64, nw)
		var ones uint64
		for w := 0; w < nw; w++ {
			st.words[p][w] = zzverif.U64("word")
			alloc.pools[p].freeBitmap[w] = st.words[p][w]
			ones += vfPop(st.words[p][w])
		}
		// padding bits of the last word are clear
		nb := st.n[p] - uint64(64*(nw-1)) // 1..64 bits used in the last word
		padMask := zzverif.IteU64(nb >= 64, 0, ^uint64(0)>>(nb&63))
		zzverif.Assume(st.words[p][nw-1]&padMask == 0)
		zeros := st.n[p] - ones
		st.freeCount[p] = uint32(zeros)
		alloc.pools[p].freeCount = st.freeCount[p]
		sumN += st.n[p]
		sumFree += zeros
	}
	st.total = uint32(sumN)
	st.reserved = uint32(sumN - sumFree)
	alloc.totalPages = st.total
	alloc.reservedPages = st.reserved
	return st
}

// vfWatch puts the allocator's mutable shared state under the lock monitor:
// the counters, every pool's freeCount and every bitmap word. (The pool table's
// bounds and slice headers are immutable after initialisation; AllocFrame reads
// startFrame after releasing the lock, which is not a race.)
func vfWatch(alloc *BitmapAllocator, st *vfState) {
	lock := unsafe.Pointer(&alloc.mutex)
	// take every address first: once a range is watched, even the harness may not read it unlocked
	var ptrs [2 + 2*vfMaxP]unsafe.Pointer
	var lens [2 + 2*vfMaxP]uintptr
	ptrs[0], lens[0] = unsafe.Pointer(&alloc.totalPages), 4
	ptrs[1], lens[1] = unsafe.Pointer(&alloc.reservedPages), 4
	for p := 0; p < st.np; p++ {
		ptrs[2+2*p], lens[2+2*p] = unsafe.Pointer(&alloc.pools[p].freeCount), 4
		ptrs[3+2*p], lens[3+2*p] = unsafe.Pointer(&alloc.pools[p].freeBitmap[0]), uintptr(8*st.nw[p])
	}
	for i := 0; i < 2+2*st.np; i++ {
		zzverif.WatchLocked(ptrs[i], lens[i], lock)
	}
}

func vfAllocStep(watch bool) {
	var alloc BitmapAllocator
	st := vfSetup(&alloc)
	if watch {
		vfWatch(&alloc, st)
	}
	f, err := alloc.AllocFrame()
	zzverif.Unwatch()
	zzverif.Assert(alloc.mutex.TryToAcquire(), "lock is free when AllocFrame returns")
	if err != nil {
		zzverif.Reach("oom")
		zzverif.Assert(err == errBitmapAllocOutOfMemory, "oom error identity")
		zzverif.Assert(f == mm.InvalidFrame, "oom returns the invalid frame")
		for p := 0; p < st.np; p++ {
			zzverif.Assert(st.freeCount[p] == 0, "oom only when every pool is exhausted")
			zzverif.Assert(alloc.pools[p].freeCount == st.freeCount[p], "oom leaves freeCount unchanged")
			for w := 0; w < st.nw[p]; w++ {
				zzverif.Assert(alloc.pools[p].freeBitmap[w] == st.words[p][w], "oom leaves bitmap unchanged")
			}
		}
		zzverif.Assert(alloc.reservedPages == st.reserved, "oom leaves counters unchanged")
		zzverif.Assert(alloc.totalPages == st.total, "totalPages unchanged")
		return
	}
	zzverif.Reach("ok")
	fr := uint64(f)
	inAny := false
	anyFree := false
	for p := 0; p < st.np; p++ {
		in := zzverif.And(fr >= st.start[p], fr < st.start[p]+st.n[p])
		inAny = zzverif.Or(inAny, in)
		anyFree = zzverif.Or(anyFree, st.freeCount[p] != 0)
		rel := fr - st.start[p]
		for w := 0; w < st.nw[p]; w++ {
			mask := zzverif.IteU64(zzverif.And(in, rel>>6 == uint64(w)), uint64(1)<<(63-(rel&63)), 0)
			zzverif.Assert(st.words[p][w]&mask == 0, "returned frame was free (its bit was clear)")
			zzverif.Assert(alloc.pools[p].freeBitmap[w] == st.words[p][w]|mask, "exactly the returned frame's bit is set, nothing else changes")
		}
		exp := st.freeCount[p] - uint32(zzverif.IteU64(in, 1, 0))
		zzverif.Assert(alloc.pools[p].freeCount == exp, "freeCount of the frame's pool decremented, others unchanged")
		zzverif.Assert(uint64(alloc.pools[p].startFrame) == st.start[p], "pool bounds unchanged")
		zzverif.Assert(uint64(alloc.pools[p].endFrame) == st.start[p]+st.n[p]-1, "pool bounds unchanged")
	}
	zzverif.Assert(inAny, "returned frame lies inside a pool (available RAM)")
	zzverif.Assert(anyFree, "a frame is returned only if some pool had a free frame")
	zzverif.Assert(alloc.reservedPages == st.reserved+1, "reservedPages incremented")
	zzverif.Assert(alloc.totalPages == st.total, "totalPages unchanged")
}

func vfFreeStep(watch bool) {
	var alloc BitmapAllocator
	st := vfSetup(&alloc)
	fr := zzverif.U64("frame")
	if watch {
		vfWatch(&alloc, st)
	}
	err := alloc.FreeFrame(mm.Frame(fr))
	zzverif.Unwatch()
	zzverif.Assert(alloc.mutex.TryToAcquire(), "lock is free when FreeFrame returns")
	inAny := false
	wasSet := false
	for p := 0; p < st.np; p++ {
		in := zzverif.And(fr >= st.start[p], fr < st.start[p]+st.n[p])
		inAny = zzverif.Or(inAny, in)
		rel := fr - st.start[p]
		for w := 0; w < st.nw[p]; w++ {
			mask := zzverif.IteU64(zzverif.And(in, rel>>6 == uint64(w)), uint64(1)<<(63-(rel&63)), 0)
			wasSet = zzverif.Or(wasSet, st.words[p][w]&mask != 0)
		}
	}
	if err != nil {
		zzverif.Reach("rejected")
		zzverif.Assert(zzverif.Or(err == errBitmapAllocFrameNotManaged, err == errBitmapAllocDoubleFree), "error identity")
		zzverif.Assert(zzverif.Implies(err == errBitmapAllocFrameNotManaged, zzverif.Not(inAny)), "not-managed only for frames outside every pool")
		zzverif.Assert(zzverif.Implies(err == errBitmapAllocDoubleFree, zzverif.And(inAny, zzverif.Not(wasSet))), "double-free only for frames that are already free")
		for p := 0; p < st.np; p++ {
			zzverif.Assert(alloc.pools[p].freeCount == st.freeCount[p], "a rejected free changes nothing (freeCount)")
			for w := 0; w < st.nw[p]; w++ {
				zzverif.Assert(alloc.pools[p].freeBitmap[w] == st.words[p][w], "a rejected free changes nothing (bitmap)")
			}
		}
		zzverif.Assert(alloc.reservedPages == st.reserved, "a rejected free changes nothing (reservedPages)")
		zzverif.Assert(alloc.totalPages == st.total, "totalPages unchanged")
		return
	}
	zzverif.Reach("freed")
	zzverif.Assert(zzverif.And(inAny, wasSet), "only a managed, currently allocated frame is freed")
	for p := 0; p < st.np; p++ {
		in := zzverif.And(fr >= st.start[p], fr < st.start[p]+st.n[p])
		rel := fr - st.start[p]
		for w := 0; w < st.nw[p]; w++ {
			mask := zzverif.IteU64(zzverif.And(in, rel>>6 == uint64(w)), uint64(1)<<(63-(rel&63)), 0)
			zzverif.Assert(alloc.pools[p].freeBitmap[w] == st.words[p][w]&^mask, "exactly the freed frame's bit is cleared")
		}
		exp := st.freeCount[p] + uint32(zzverif.IteU64(in, 1, 0))
		zzverif.Assert(alloc.pools[p].freeCount == exp, "freeCount of the frame's pool incremented, others unchanged")
	}
	zzverif.Assert(alloc.reservedPages == st.reserved-1, "reservedPages decremented")
	zzverif.Assert(alloc.totalPages == st.total, "totalPages unchanged")
}

//verif:split 6
func Verif_C01_alloc_step() { vfAllocStep(false) }

//verif:split 6
func Verif_C01_free_step() { vfFreeStep(false) }

//verif:split 6
//verif:tier thorough
func Verif_C03_alloc_step() { vfAllocStep(false) }

// Drain: from a state with exactly m <= 3 free frames (positions arbitrary),
// AllocFrame succeeds exactly m times with pairwise distinct frames, then reports
// out-of-memory; the reported totals agree after every call.
//
//verif:split 6
//verif:tier thorough
func Verif_C03_drain() {
	var alloc BitmapAllocator
	st := vfSetup(&alloc)
	var free uint64
	for p := 0; p < st.np; p++ {
		free += uint64(st.freeCount[p])
	}
	m := int(zzverif.Split("free", free, 3))
	var got [4]mm.Frame
	for i := 0; i < m; i++ {
		f, err := alloc.AllocFrame()
		zzverif.Assert(err == nil, "allocation succeeds while usable frames remain")
		if err != nil {
			return
		}
		for j := 0; j < i; j++ {
			zzverif.Assert(f != got[j], "no frame is handed out twice")
		}
		got[i] = f
		zzverif.Assert(alloc.totalPages-alloc.reservedPages == uint32(m-i-1), "reported free total agrees after every allocation")
	}
	zzverif.Reach("drained")
	_, err := alloc.AllocFrame()
	zzverif.Assert(err == errBitmapAllocOutOfMemory, "out-of-memory exactly when the usable frames are used up")
	zzverif.Assert(alloc.totalPages == alloc.reservedPages, "nothing is reported free after draining")
}

//verif:split 6
func Verif_C03_free_step() { vfFreeStep(false) }

// Lock discipline: every access to allocator state happens while alloc.mutex is
// held, the lock is taken exactly when free (the sequential spinlock intrinsic
// reports a second Acquire as blocking forever) and is free again on return.
//
//verif:split 6
func Verif_C09_alloc_lock_discipline() { vfAllocStep(true) }

//verif:split 6
func Verif_C09_free_lock_discipline() { vfFreeStep(true) }
