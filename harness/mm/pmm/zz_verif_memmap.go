//go:build verif

package pmm

import (
	"unsafe"

	"github.com/ProjectSerenity/firefly/kernel/mm"
	"github.com/ProjectSerenity/firefly/kernel/multiboot"
	"github.com/ProjectSerenity/firefly/kernel/zzverif"
)

const (
	vfMaxE     = 3
	vfMbBase   = uintptr(0x20000000)
	vfMaxFrame = uint64(1) << 40 // physical addresses below 2^52
)

type vfMemMap struct {
	ne                   int
	addr, length         [vfMaxE]uint64
	typ                  [vfMaxE]uint32
	kstart, kend         uint64 // kernel image [kstart, kend)
	kStartFrame, kEndFrm uint64
}

func vfPut32(p uintptr, v uint32) { *(*uint32)(unsafe.Pointer(p)) = v }
func vfPut64(p uintptr, v uint64) { *(*uint64)(unsafe.Pointer(p)) = v }

// vfBuildMemMap lays out a multiboot info block holding one memory-map tag with
// ne entries (address, length, type symbolic; sorted, non-overlapping, below
// 2^52, at most maxFrames frames plus unaligned slack each) in a raw region and
// places the kernel image page-aligned inside one available entry.
// vfMenu: when set, the map is drawn from small menus of concrete layouts instead of being symbolic (two adjacent or
// nearby available entries whose frame counts are and are not multiples of 64, kernel at the start of either).
var vfMenu bool

func vfBuildMemMap(ne int, maxFrames uint64) *vfMemMap {
	m := &vfMemMap{ne: ne}
	size := uintptr(8 + 16 + 24*ne + 8)
	buf := zzverif.Region("mb", vfMbBase, size, 0)
	base := uintptr(unsafe.Pointer(&buf[0]))
	vfPut32(base, uint32(size))
	vfPut32(base+4, 0)
	vfPut32(base+8, 6) // memory map tag
	vfPut32(base+12, uint32(16+24*ne))
	vfPut32(base+16, 24) // entry size
	vfPut32(base+20, 0)
	prevEnd := uint64(0)
	for i := 0; i < ne; i++ {
		if vfMenu {
			frames := [4]uint64{40, 64, 65, 100}[zzverif.Choice("frames", 4)]
			gap := [2]uint64{0, 0x3000}[zzverif.Choice("gap", 2)]
			m.addr[i], m.length[i], m.typ[i] = prevEnd+gap+0x1000*uint64(1-i), frames<<12, 1
			if i == 1 {
				m.addr[i] = prevEnd + gap
			}
		} else {
			m.addr[i] = zzverif.U64("addr")
			m.length[i] = zzverif.U64("len")
			m.typ[i] = zzverif.U32("type")
		}
		zzverif.Assume(m.addr[i] < vfMaxFrame<<12)
		zzverif.Assume(m.length[i] <= maxFrames*4096+4095)
		zzverif.Assume(m.addr[i] >= prevEnd)
		prevEnd = m.addr[i] + m.length[i]
		e := base + 24 + uintptr(24*i)
		vfPut64(e, m.addr[i])
		vfPut64(e+8, m.length[i])
		vfPut32(e+16, m.typ[i])
		vfPut32(e+20, 0)
	}
	end := base + 24 + uintptr(24*ne)
	vfPut32(end, 0)
	vfPut32(end+4, 8)
	multiboot.SetInfoPtr(base)

	// kernel image: page-aligned start, 1 byte .. 3 pages, inside one available entry
	m.kstart = zzverif.U64("kstart")
	ksize := zzverif.U64("ksize")
	if vfMenu {
		m.kstart = m.addr[zzverif.Choice("kernel-entry", ne)]
		ksize = [2]uint64{0x1000, 0x2800}[zzverif.Choice("kernel-size", 2)]
	}
	zzverif.Assume(m.kstart&4095 == 0)
	zzverif.Assume(m.kstart < vfMaxFrame<<12)
	zzverif.Assume(zzverif.And(ksize >= 1, ksize <= 3*4096))
	m.kend = m.kstart + ksize
	inside := false
	for i := 0; i < ne; i++ {
		inside = zzverif.Or(inside, zzverif.And(m.typ[i] == 1, zzverif.And(m.addr[i] <= m.kstart, m.kend <= m.addr[i]+m.length[i])))
	}
	zzverif.Assume(inside)
	m.kStartFrame = m.kstart >> 12
	m.kEndFrm = ((m.kend+4095)&^4095)>>12 - 1
	return m
}

// available reports whether entry i is reported as available RAM.
func (m *vfMemMap) available(i int) bool { return m.typ[i] == 1 }

// firstFrame/frameCount: whole frames of entry i (start rounded up, end rounded down).
func (m *vfMemMap) firstFrame(i int) uint64   { return (m.addr[i] + 4095) >> 12 }
func (m *vfMemMap) endFrameExcl(i int) uint64 { return (m.addr[i] + m.length[i]) >> 12 }
func (m *vfMemMap) frameCount(i int) uint64 {
	s, e := m.firstFrame(i), m.endFrameExcl(i)
	return zzverif.IteU64(e > s, e-s, 0)
}

// usable: frame f lies wholly inside an available entry and is not a kernel frame.
func (m *vfMemMap) usable(f uint64) bool {
	in := false
	for i := 0; i < m.ne; i++ {
		in = zzverif.Or(in, zzverif.And(m.available(i), zzverif.And(f >= m.firstFrame(i), f < m.endFrameExcl(i))))
	}
	return zzverif.And(in, zzverif.Not(zzverif.And(f >= m.kStartFrame, f <= m.kEndFrm)))
}

func vfNoPrintf(format string, args ...interface{}) {}

var _ = mm.PageSize
