//go:build verif

//verif:bounds one reservation from an arbitrary page-aligned cursor <= tempMappingAddr; size ranges over all 2^64 values
//verif:assumes cursor invariant: earlyReserveLastUsed is page aligned and <= tempMappingAddr (established by the initial value, preserved by reserve_step)
package vmm

import (
	"github.com/ProjectSerenity/firefly/kernel"
	"github.com/ProjectSerenity/firefly/kernel/mm"
	"github.com/ProjectSerenity/firefly/kernel/zzverif"
)

// One reservation from an arbitrary valid cursor. Regions are [addr, cursor)
// and the cursor becomes addr, so disjointness over histories of any length
// follows from this step.
func Verif_C07_reserve_step() {
	cur := zzverif.Uintptr("cursor")
	zzverif.Assume(zzverif.And(cur <= tempMappingAddr, cur&(mm.PageSize-1) == 0))
	earlyReserveLastUsed = cur
	size := zzverif.Uintptr("size")
	addr, err := EarlyReserveRegion(size)
	if err == nil {
		zzverif.Reach("ok")
		zzverif.Assert(addr&(mm.PageSize-1) == 0, "reserved region is page aligned")
		zzverif.Assert(zzverif.And(addr <= cur, cur-addr >= size), "region lies below the cursor and is at least as large as requested")
		zzverif.Assert(earlyReserveLastUsed == addr, "cursor moved to region start")
		zzverif.Assert(earlyReserveLastUsed <= tempMappingAddr, "cursor invariant preserved")
	} else {
		zzverif.Reach("err")
		zzverif.Assert(err == errEarlyReserveNoSpace, "error identity")
		zzverif.Assert(earlyReserveLastUsed == cur, "failure reserves nothing")
	}
}

const vfC07MaxCalls = 6

type vfMapCall struct {
	page  mm.Page
	frame mm.Frame
	flags PageTableEntryFlag
}

// vfC07Size picks a size from [0, 4 pages] or from the top 2 pages of the integer range.
// For the huge sizes the mapping callback is made to fail within the first five
// calls, so that a (correct) attempt to map 2^52 pages ends within the unrolling budget.
func vfC07Size(failAt int) uintptr {
	size := zzverif.Uintptr("size")
	zzverif.Assume(zzverif.Or(size <= 4*mm.PageSize, size >= ^uintptr(0)-2*mm.PageSize+1))
	zzverif.Assume(zzverif.Or(size <= 4*mm.PageSize, zzverif.And(failAt >= 0, failAt <= 4)))
	return size
}

// MapRegion: reserves through the real EarlyReserveRegion, maps exactly the
// pages needed to cover size, consecutive pages to consecutive frames.
//
//verif:bounds size in [0, 4 pages] or [2^64-8192, 2^64-1] (for these the map callback fails within 5 calls); cursor arbitrary aligned; frame < 2^40; map failure at an arbitrary call index
func Verif_C07_mapregion() {
	cur := zzverif.Uintptr("cursor")
	zzverif.Assume(zzverif.And(cur <= tempMappingAddr, cur&(mm.PageSize-1) == 0))
	earlyReserveLastUsed = cur
	earlyReserveRegionFn = EarlyReserveRegion
	failAt := zzverif.Int("failAt")
	size := vfC07Size(failAt)
	frame := mm.Frame(zzverif.U64("frame"))
	zzverif.Assume(frame < 1<<40)
	flags := PageTableEntryFlag(zzverif.U64("flags"))
	var calls [vfC07MaxCalls]vfMapCall
	n := 0
	mapErr := &kernel.Error{Module: "verif", Message: "map failed"}
	needed := int(size >> mm.PageShift)
	if size&(mm.PageSize-1) != 0 {
		needed++
	}
	mapFn = func(p mm.Page, f mm.Frame, fl PageTableEntryFlag) *kernel.Error {
		zzverif.Assert(n < needed, "no page beyond those needed to cover the size is mapped")
		if n < vfC07MaxCalls {
			calls[n] = vfMapCall{p, f, fl}
		}
		n++
		if n-1 == failAt {
			return mapErr
		}
		return nil
	}
	page, err := MapRegion(frame, size, flags)
	if err == nil {
		zzverif.Reach("ok")
		zzverif.Assert(n == needed, "exactly the pages needed to cover the size are mapped")
		zzverif.Assert(page.Address() == earlyReserveLastUsed, "returned page is the start of the reserved region")
		zzverif.Assert(zzverif.And(earlyReserveLastUsed <= cur, cur-earlyReserveLastUsed >= size), "reserved region covers the requested size")
		zzverif.Assert(zzverif.Or(failAt < 0, failAt >= n), "a mapping error is not swallowed")
		for i := 0; i < n && i < vfC07MaxCalls; i++ {
			zzverif.Assert(calls[i].page == page+mm.Page(i), "consecutive pages")
			zzverif.Assert(calls[i].frame == frame+mm.Frame(i), "consecutive frames")
			zzverif.Assert(calls[i].flags == flags, "requested flags")
		}
	} else {
		zzverif.Reach("err")
		zzverif.Assert(zzverif.Or(err == mapErr, err == errEarlyReserveNoSpace), "error is the reservation or the mapping error")
		if err == errEarlyReserveNoSpace {
			zzverif.Assert(n == 0, "nothing is mapped when the reservation fails")
			zzverif.Assert(earlyReserveLastUsed == cur, "a failed reservation reserves nothing")
		}
	}
}

//verif:bounds size in [0, 4 pages] or [2^64-8192, 2^64-1]; start frame < 2^40
func Verif_C07_identitymap() {
	failAt := zzverif.Int("failAt")
	size := vfC07Size(failAt)
	frame := mm.Frame(zzverif.U64("frame"))
	zzverif.Assume(frame < 1<<40)
	flags := PageTableEntryFlag(zzverif.U64("flags"))
	var calls [vfC07MaxCalls]vfMapCall
	n := 0
	mapErr := &kernel.Error{Module: "verif", Message: "map failed"}
	needed := int(size >> mm.PageShift)
	if size&(mm.PageSize-1) != 0 {
		needed++
	}
	mapFn = func(p mm.Page, f mm.Frame, fl PageTableEntryFlag) *kernel.Error {
		zzverif.Assert(n < needed, "no page beyond those needed to cover the size is mapped")
		if n < vfC07MaxCalls {
			calls[n] = vfMapCall{p, f, fl}
		}
		n++
		if n-1 == failAt {
			return mapErr
		}
		return nil
	}
	page, err := IdentityMapRegion(frame, size, flags)
	if err == nil {
		zzverif.Reach("ok")
		zzverif.Assert(n == needed, "exactly the pages needed to cover the size are mapped")
		zzverif.Assert(page == mm.Page(frame), "identity: returned page equals the start frame")
		zzverif.Assert(zzverif.Or(failAt < 0, failAt >= n), "a mapping error is not swallowed")
		for i := 0; i < n && i < vfC07MaxCalls; i++ {
			zzverif.Assert(calls[i].page == page+mm.Page(i), "consecutive pages")
			zzverif.Assert(calls[i].frame == frame+mm.Frame(i), "page i maps to frame i")
			zzverif.Assert(calls[i].flags == flags, "requested flags")
		}
	} else {
		zzverif.Reach("err")
		zzverif.Assert(err == mapErr, "error is the mapping error")
	}
}
