//go:build verif

package vmm

// Exported accessors for harnesses in other packages (kernel/goruntime drives the real EarlyReserveRegion).

func VerifTempMappingAddr() uintptr          { return tempMappingAddr }
func VerifSetEarlyReserveLastUsed(v uintptr) { earlyReserveLastUsed = v }
func VerifEarlyReserveLastUsed() uintptr     { return earlyReserveLastUsed }
