//go:build verif

//verif:bounds C05: up to 2 (thorough 3) ELF sections with symbolic address (aligned or not), size 1 byte..3 (thorough 5) pages, all flag bits, symbolic page-aligned kernel offset, 0..2 (thorough 0..3) early reserved pages, map failure at an arbitrary call; C06: every bit of the four page-table entries on the faulting path symbolic, arbitrary fault address inside one page with arbitrary contents (copy checked at 8 representative byte offsets), arbitrary error code, frame-allocation or temporary-mapping failure; zero-frame guard through Map, MapTemporary, PageDirectoryTable.Map, IdentityMapRegion with symbolic frame and flags
//verif:assumes seam level (the repository's own test seams): ptePtrFn serves a 4-entry table (one entry per level of the walk), mapTemporaryFn/unmapFn/flushTLBEntryFn/switchPDTFn/activePDTFn/translateFn/visitElfSectionsFn and the frame allocator are harness functions; kfmt.Printf/Fprintf (panic message formatting) are stubbed while encoding
//verif:override github.com/ProjectSerenity/firefly/kernel/kfmt.Printf vfNoPrintf
//verif:override github.com/ProjectSerenity/firefly/kernel/kfmt.Fprintf vfNoFprintf
package vmm

import (
	"io"
	"unsafe"

	"github.com/ProjectSerenity/firefly/kernel"
	"github.com/ProjectSerenity/firefly/kernel/gate"
	"github.com/ProjectSerenity/firefly/kernel/mm"
	"github.com/ProjectSerenity/firefly/kernel/multiboot"
	"github.com/ProjectSerenity/firefly/kernel/zzverif"
)

func vfNoPrintf(format string, args ...interface{})               {}
func vfNoFprintf(w io.Writer, format string, args ...interface{}) {}

// ---------- C05 ----------

type vfSection struct {
	flags multiboot.ElfSectionFlag
	addr  uintptr
	size  uint64
}

func Verif_C05_sections_calls() {
	ns := 1 + zzverif.Choice("sections", zzverif.Param("sections", 2, 3))
	maxPages := uint64(zzverif.Param("secpages", 3, 5))
	var secs [3]vfSection
	offset := zzverif.Uintptr("kernelPageOffset")
	zzverif.Assume(offset&(mm.PageSize-1) == 0)
	for i := 0; i < ns; i++ {
		secs[i] = vfSection{multiboot.ElfSectionFlag(zzverif.U32("secflags")), zzverif.Uintptr("secaddr"), zzverif.U64("secsize")}
		zzverif.Assume(zzverif.And(secs[i].size >= 1, secs[i].size <= maxPages*4096))
		zzverif.Assume(secs[i].addr <= ^uintptr(0)-6*4096) // the section does not wrap around the address space
	}
	visitElfSectionsFn = func(v multiboot.ElfSectionVisitor) {
		for i := 0; i < ns; i++ {
			v("sec", secs[i].flags, secs[i].addr, secs[i].size)
		}
	}
	root := mm.Frame(0x1234)
	mm.SetFrameAllocator(func() (mm.Frame, *kernel.Error) { return root, nil })
	activePDTFn = func() uintptr { return root.Address() } // the new root counts as active: PDT.Map maps directly
	r := zzverif.Choice("reserved", zzverif.Param("reserved", 3, 4))
	earlyReserveLastUsed = tempMappingAddr - uintptr(r)*mm.PageSize
	var transl [3]uintptr
	for i := 0; i < r; i++ {
		transl[i] = zzverif.Uintptr("translated") &^ (mm.PageSize - 1)
	}
	translateFn = func(va uintptr) (uintptr, *kernel.Error) {
		i := (va - earlyReserveLastUsed) >> mm.PageShift
		return transl[i], nil
	}
	failAt := zzverif.Int("failAt")
	mapErr := &kernel.Error{Module: "verif", Message: "map failed"}
	var calls [24]vfMapCall
	n := 0
	mapFn = func(p mm.Page, f mm.Frame, fl PageTableEntryFlag) *kernel.Error {
		if n < len(calls) {
			calls[n] = vfMapCall{p, f, fl}
		}
		n++
		if n-1 == failAt {
			return mapErr
		}
		return nil
	}
	switched := uintptr(0)
	nsw := 0
	callsAtSwitch := -1
	switchPDTFn = func(a uintptr) { switched, nsw, callsAtSwitch = a, nsw+1, n }
	kernelPDT = PageDirectoryTable{}
	err := setupPDTForKernel(offset)

	// reference list of (page, frame, flags)
	var exp [24]vfMapCall
	ne := 0
	for i := 0; i < ns; i++ {
		s := secs[i]
		if s.addr < offset {
			continue
		}
		fl := FlagPresent
		if s.flags&multiboot.ElfSectionExecutable == 0 {
			fl |= FlagNoExecute
		}
		if s.flags&multiboot.ElfSectionWritable != 0 {
			fl |= FlagRW
		}
		first := uintptr(s.addr) >> mm.PageShift
		last := (uintptr(s.addr) + uintptr(s.size) - 1) >> mm.PageShift
		for pg := first; pg <= last; pg++ {
			exp[ne] = vfMapCall{mm.Page(pg), mm.Frame(pg - offset>>mm.PageShift), fl}
			ne++
		}
	}
	for i := 0; i < r; i++ {
		va := earlyReserveLastUsed + uintptr(i)*mm.PageSize
		exp[ne] = vfMapCall{mm.Page(va >> mm.PageShift), mm.Frame(transl[i] >> mm.PageShift), FlagPresent | FlagRW}
		ne++
	}
	if err != nil {
		zzverif.Reach("error")
		zzverif.Assert(err == mapErr, "a mapping error is returned")
		zzverif.Assert(nsw == 0, "the new address space is not activated after an error")
		zzverif.Assert(zzverif.And(failAt >= 0, failAt < ne), "errors only come from the failing map call")
		return
	}
	zzverif.Reach("ok")
	zzverif.Assert(zzverif.Or(failAt < 0, failAt >= n), "a mapping error is not swallowed")
	zzverif.Assert(n == ne, "every page of every loaded section in the kernel range, and every early reservation, is mapped exactly once; nothing else")
	for i := 0; i < n && i < ne; i++ {
		zzverif.Assert(calls[i].page == exp[i].page, "page mapped")
		zzverif.Assert(calls[i].frame == exp[i].frame, "to the physical page it was loaded at")
		zzverif.Assert(calls[i].flags == exp[i].flags, "writable only if the section is writable, executable only if it is executable")
		zzverif.Assert(calls[i].flags&FlagUserAccessible == 0, "never user-accessible")
	}
	zzverif.Assert(zzverif.And(nsw == 1, switched == root.Address()), "the new address space is the active one when initialisation returns")
	zzverif.Assert(callsAtSwitch == n, "activation happens after all mappings")
}

// ---------- C06 ----------

const vfFaultBase = uintptr(0x30000000)
const vfTmpBase = uintptr(0x30100000)

func Verif_C06_fault() {
	var ptes [4]pageTableEntry
	var old [4]pageTableEntry
	for i := range ptes {
		ptes[i] = pageTableEntry(zzverif.Uintptr("pte"))
		old[i] = ptes[i]
	}
	lvl := 0
	ptePtrFn = func(uintptr) unsafe.Pointer {
		p := unsafe.Pointer(&ptes[lvl])
		lvl++
		return p
	}
	fault := zzverif.Region("fault", vfFaultBase, mm.PageSize, 1)
	tmp := zzverif.Region("tmp", vfTmpBase, mm.PageSize, 1)
	fbase := uintptr(unsafe.Pointer(&fault[0]))
	tbase := uintptr(unsafe.Pointer(&tmp[0]))
	off := zzverif.Uintptr("faultoffset") & (mm.PageSize - 1)
	readCR2Fn = func() uint64 { return uint64(fbase + off) }
	allocFail := zzverif.Bool("allocFail")
	tmpFail := zzverif.Bool("tmpMapFail")
	newFrame := mm.Frame(zzverif.U64("newFrame"))
	zzverif.Assume(newFrame < 1<<40)
	allocErr := &kernel.Error{Module: "verif", Message: "out of memory"}
	tmpErr := &kernel.Error{Module: "verif", Message: "temp map failed"}
	mm.SetFrameAllocator(func() (mm.Frame, *kernel.Error) {
		if allocFail {
			return mm.InvalidFrame, allocErr
		}
		return newFrame, nil
	})
	mapTemporaryFn = func(f mm.Frame) (mm.Page, *kernel.Error) {
		if tmpFail {
			return 0, tmpErr
		}
		return mm.PageFromAddress(tbase), nil
	}
	unmaps, flushes := 0, 0
	var unmapped mm.Page
	var flushed uintptr
	unmapFn = func(p mm.Page) *kernel.Error { unmaps++; unmapped = p; return nil }
	flushTLBEntryFn = func(a uintptr) { flushes++; flushed = a }
	var regs gate.Registers
	regs.Info = zzverif.U64("errorcode")
	// a probe byte of the page (one of eight representative offsets), read before the handler runs
	j := [8]uintptr{0, 1, 7, 8, 2047, 2048, 4088, 4095}[zzverif.Choice("probe", 8)]
	before := fault[j]
	tmpBefore := tmp[j]
	panicked := zzverif.Catch(func() { pageFaultHandler(&regs) })

	present := true
	for i := 0; i < 4; i++ {
		present = zzverif.And(present, old[i]&pageTableEntry(FlagPresent) != 0)
	}
	leaf := old[3]
	cow := zzverif.And(present, zzverif.And(uintptr(leaf)&uintptr(FlagRW) == 0, uintptr(leaf)&uintptr(FlagCopyOnWrite) != 0))
	recoverable := zzverif.And(cow, zzverif.And(!allocFail, !tmpFail))
	if !panicked {
		zzverif.Reach("resumed")
		zzverif.Assert(recoverable, "the faulting code is resumed only for a present, read-only, copy-on-write page whose private copy could be made")
		want := (uintptr(leaf) &^ (ptePhysPageMask | uintptr(FlagCopyOnWrite))) | uintptr(FlagPresent|FlagRW) | newFrame.Address()
		zzverif.Assert(uintptr(ptes[3]) == want, "the page now maps the fresh frame, writable, copy-on-write cleared, other bits kept")
		zzverif.Assert(zzverif.And(ptes[0] == old[0], zzverif.And(ptes[1] == old[1], ptes[2] == old[2])), "upper-level entries are untouched")
		zzverif.Assert(tmp[j] == before, "the private copy holds what the page showed before")
		zzverif.Assert(fault[j] == before, "the shared page itself is untouched")
		zzverif.Assert(zzverif.And(flushes == 1, flushed == fbase), "the page's TLB entry is invalidated")
		zzverif.Assert(zzverif.And(unmaps == 1, unmapped == mm.PageFromAddress(tbase)), "the temporary mapping is removed")
		return
	}
	zzverif.Reach("panicked")
	zzverif.Assert(!recoverable, "a resolvable copy-on-write fault does not end in a panic")
	for i := 0; i < 4; i++ {
		zzverif.Assert(ptes[i] == old[i], "an unrecoverable fault leaves the page tables unchanged")
	}
	zzverif.Assert(fault[j] == before, "an unrecoverable fault leaves the page unchanged")
	zzverif.Assert(zzverif.Or(zzverif.And(cow, zzverif.And(!allocFail, tmpFail)), tmp[j] == tmpBefore), "no copy is made for an unrecoverable fault")
}

func Verif_C06_gpf() {
	readCR2Fn = func() uint64 { return zzverif.U64("cr2") }
	var regs gate.Registers
	regs.Info = zzverif.U64("errorcode")
	panicked := zzverif.Catch(func() { generalProtectionFaultHandler(&regs) })
	zzverif.Assert(panicked, "a general protection fault always ends in a kernel panic")
	zzverif.Reach("done")
}

// vfLeafTable: ptePtrFn serves four entries whose upper levels are present (so that a walk reaches the leaf).
func vfLeafTable(ptes *[4]pageTableEntry) {
	for i := 0; i < 3; i++ {
		ptes[i] = pageTableEntry(FlagPresent | FlagRW | 0x5000)
	}
	ptes[3] = pageTableEntry(zzverif.Uintptr("leaf"))
	lvl := 0
	ptePtrFn = func(uintptr) unsafe.Pointer {
		p := unsafe.Pointer(&ptes[lvl&3])
		lvl++
		return p
	}
	flushTLBEntryFn = func(uintptr) {}
}

// The shared zero frame can never be mapped writable through the mapping interface.
func Verif_C06_zero_guard() {
	protectReservedZeroedPage = true
	ReservedZeroedFrame = mm.Frame(zzverif.U64("zeroFrame"))
	zzverif.Assume(ReservedZeroedFrame < 1<<40)
	var ptes [4]pageTableEntry
	vfLeafTable(&ptes)
	oldLeaf := ptes[3]
	frame := mm.Frame(zzverif.U64("frame"))
	zzverif.Assume(frame < 1<<40)
	flags := PageTableEntryFlag(zzverif.Uintptr("flags")) & (0x3ff | FlagNoExecute) // any subset of the defined flag bits
	page := mm.Page(zzverif.Uintptr("page") >> mm.PageShift)
	mapFn = Map
	activePDTFn = func() uintptr { return 0x7000 }
	var err *kernel.Error
	writable := flags&FlagRW != 0
	entry := zzverif.Choice("entry", 4)
	switch entry {
	case 0:
		err = Map(page, frame, flags)
	case 1:
		_, err = MapTemporary(frame)
		writable = true // MapTemporary always maps read-write
		flags = FlagPresent | FlagRW
	case 2:
		err = PageDirectoryTable{pdtFrame: 7}.Map(page, frame, flags)
	case 3:
		_, err = IdentityMapRegion(frame, mm.PageSize, flags)
	}
	hitsZero := frame == ReservedZeroedFrame
	if zzverif.And(hitsZero, writable) {
		zzverif.Reach("refused")
		zzverif.Assert(err == errAttemptToRWMapReservedFrame, "a writable mapping of the shared zero frame is refused")
		zzverif.Assert(ptes[3] == oldLeaf, "and no page-table entry is changed")
		return
	}
	zzverif.Reach("mapped")
	zzverif.Assert(err == nil, "every other mapping request succeeds")
	want := frame.Address() | uintptr(flags)
	zzverif.Assert(uintptr(ptes[3]) == want, "the leaf entry holds exactly the requested frame and flags")
	zzverif.Assert(zzverif.Not(zzverif.And(ptes[3].Frame() == ReservedZeroedFrame, ptes[3].HasFlags(FlagRW))), "no entry maps the zero frame writable")
}

func Verif_C06_reserve_zero() {
	protectReservedZeroedPage = false
	allocFail := zzverif.Bool("allocFail")
	tmpFail := zzverif.Bool("tmpMapFail")
	newFrame := mm.Frame(zzverif.U64("newFrame"))
	allocErr := &kernel.Error{Module: "verif", Message: "out of memory"}
	tmpErr := &kernel.Error{Module: "verif", Message: "temp map failed"}
	tmp := zzverif.Region("tmp", vfTmpBase, mm.PageSize, 1)
	tbase := uintptr(unsafe.Pointer(&tmp[0]))
	mm.SetFrameAllocator(func() (mm.Frame, *kernel.Error) {
		if allocFail {
			return mm.InvalidFrame, allocErr
		}
		return newFrame, nil
	})
	var mappedFrame mm.Frame
	mapTemporaryFn = func(f mm.Frame) (mm.Page, *kernel.Error) {
		mappedFrame = f
		if tmpFail {
			return 0, tmpErr
		}
		return mm.PageFromAddress(tbase), nil
	}
	unmaps := 0
	unmapFn = func(p mm.Page) *kernel.Error { unmaps++; return nil }
	j := zzverif.Uintptr("probe")
	zzverif.Assume(j < mm.PageSize)
	err := reserveZeroedFrame()
	if err != nil {
		zzverif.Reach("error")
		zzverif.Assert(zzverif.Or(zzverif.And(allocFail, err == allocErr), zzverif.And(!allocFail, zzverif.And(tmpFail, err == tmpErr))), "the failing step's error is returned")
		zzverif.Assert(!protectReservedZeroedPage, "the guard is not armed when reserving the zero frame failed")
		return
	}
	zzverif.Reach("ok")
	zzverif.Assert(zzverif.And(!allocFail, !tmpFail), "success only if both steps succeeded")
	zzverif.Assert(ReservedZeroedFrame == newFrame, "the allocated frame becomes the shared zero frame")
	zzverif.Assert(mappedFrame == newFrame, "exactly that frame is mapped for clearing")
	zzverif.Assert(tmp[j] == 0, "the frame is zero-filled")
	zzverif.Assert(unmaps == 1, "the temporary mapping is removed")
	zzverif.Assert(protectReservedZeroedPage, "the write guard is armed")
}
