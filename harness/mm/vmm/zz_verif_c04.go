//go:build verif

//verif:bounds page-table operations against a software MMU: physical memory of K frames (quick 8); every allocatable frame starts full of junk (one arbitrary word per frame); a minimal active root (recursive slot 511); N operations (quick 2) each Map or Unmap of a page from a menu of 7 representative pages (same leaf table, shared level-2 / level-1 tables only, high canonical half, last slots before the recursive window, the temporary-mapping page), symbolic frame < 2^40 and any subset of the defined flag bits; frame allocator failing at a symbolic call; the result is checked for an arbitrary probe address
//verif:assumes the recursive-mapping addresses produced by walk are translated by an independent software MMU over the physical-memory region (ptePtrFn / nextAddrFn seams); physical memory sits at its physical address (A-ADDR); TLB is a log (ops) or, as a second mode of the inactive-space harness, a cache of the recursive-window translations that only explicit invalidation or a root switch empties
//verif:override github.com/ProjectSerenity/firefly/kernel/kfmt.Printf vfNoPrintf
package vmm

import (
	"unsafe"

	"github.com/ProjectSerenity/firefly/kernel"
	"github.com/ProjectSerenity/firefly/kernel/mm"
	"github.com/ProjectSerenity/firefly/kernel/zzverif"
)

const (
	vfPhysBase  = uintptr(0x100000)
	vfPhysFrame = mm.Frame(0x100)
	vfMaxFrames = 12
	vfFlagMask  = uintptr(0x3ff) | uintptr(FlagNoExecute)
)

type vfMachine struct {
	k        int
	cr3      uintptr
	next     int // next frame to hand out
	failAt   int
	allocs   int
	flushes  [8]uintptr
	nflush   int
	unmapped bool // the kernel touched an address the MMU cannot translate
	// optional TLB model: translations of page-table pages reached through the recursive window are cached on
	// first use and dropped only by flushTLBEntryFn for that very page or by a root switch, as a real TLB may do
	tlbCache bool
	tlb      map[uintptr]uintptr
}

var vfM *vfMachine

// vfMMU translates a virtual address with four dependent loads from physical memory.
func vfMMU(cr3, va uintptr) (pa uintptr, ok bool) {
	t := cr3
	ok = true
	for level := 0; level < 4; level++ {
		idx := (va >> pageLevelShifts[level]) & 511
		e := *(*uintptr)(unsafe.Pointer(t + idx<<3))
		ok = zzverif.And(ok, e&uintptr(FlagPresent) != 0)
		if !ok {
			return 0, false
		}
		// table frames are few: enumerate them so that the next level is read at a known frame
		t = uintptr(zzverif.Concretize("table", uint64(e&ptePhysPageMask), 16))
	}
	return t + va&(mm.PageSize-1), true
}

// vfLeaf returns the hardware leaf entry for va (0 if an upper level is not present).
func vfLeaf(cr3, va uintptr) (entry uintptr, ok bool) {
	t := cr3
	for level := 0; level < 4; level++ {
		idx := (va >> pageLevelShifts[level]) & 511
		e := *(*uintptr)(unsafe.Pointer(t + idx<<3))
		if level == 3 {
			return e, true
		}
		if e&uintptr(FlagPresent) == 0 {
			return 0, false
		}
		t = uintptr(zzverif.Concretize("table", uint64(e&ptePhysPageMask), 16))
	}
	return 0, false
}

func vfBoot(k int) *vfMachine {
	m := &vfMachine{k: k, next: 1}
	vfM = m
	phys := zzverif.Region("phys", vfPhysBase, uintptr(k)*mm.PageSize, 0)
	_ = phys
	m.cr3 = vfPhysFrame.Address()
	// every frame the allocator will hand out is full of junk: one arbitrary word per frame, in all 512 slots
	// (an uninitialised table; cheaper for the solver than 4096 independent bytes and enough to expose a missing clear)
	for f := 1; f < k; f++ {
		g := zzverif.Uintptr("junk")
		for slot := uintptr(0); slot < 512; slot++ {
			*(*uintptr)(unsafe.Pointer((vfPhysFrame + mm.Frame(f)).Address() + slot<<3)) = g
		}
	}
	// the boot code's root table: empty except the recursive entry in slot 511
	kernel.Memset(m.cr3, 0, mm.PageSize)
	*(*uintptr)(unsafe.Pointer(m.cr3 + 511<<3)) = m.cr3 | uintptr(FlagPresent|FlagRW)
	m.failAt = zzverif.Int("allocFailAt")
	allocErr := &kernel.Error{Module: "verif", Message: "out of frames"}
	mm.SetFrameAllocator(func() (mm.Frame, *kernel.Error) {
		m.allocs++
		if m.allocs-1 == m.failAt {
			return mm.InvalidFrame, allocErr
		}
		zzverif.Assume(m.next < m.k) // the bound on physical memory is not what is being tested
		f := vfPhysFrame + mm.Frame(m.next)
		m.next++
		return f, nil
	})
	activePDTFn = func() uintptr { return m.cr3 }
	m.tlb = map[uintptr]uintptr{}
	switchPDTFn = func(a uintptr) {
		m.cr3 = a
		m.tlb = map[uintptr]uintptr{}
	}
	flushTLBEntryFn = func(a uintptr) {
		if m.nflush < len(m.flushes) {
			m.flushes[m.nflush] = a
		}
		m.nflush++
		delete(m.tlb, a&^(mm.PageSize-1))
	}
	ptePtrFn = func(entryAddr uintptr) unsafe.Pointer {
		vpage := entryAddr &^ (mm.PageSize - 1)
		if m.tlbCache {
			if ppage, hit := m.tlb[vpage]; hit {
				return unsafe.Pointer(ppage + entryAddr&(mm.PageSize-1))
			}
		}
		pa, ok := vfMMU(m.cr3, entryAddr)
		zzverif.Assert(ok, "page-table walk only touches addresses the MMU can translate")
		zzverif.Assume(ok)
		if m.tlbCache {
			m.tlb[vpage] = pa &^ (mm.PageSize - 1)
		}
		return unsafe.Pointer(pa)
	}
	// Map derives the next table's address from the entry pointer (entry address << 9 in the recursive window).
	// Here entry pointers are physical, so the seam maps that value back to the table the entry designates.
	nextAddrFn = func(x uintptr) uintptr {
		entry := *(*uintptr)(unsafe.Pointer(x >> 9))
		return uintptr(zzverif.Concretize("newtable", uint64(entry&ptePhysPageMask), 16))
	}
	protectReservedZeroedPage = false
	return m
}

// vfPageMenu: representative pages spread over the four table levels: same leaf table (A,B), shared upper
// levels only (C: level-2, D: level-1), other half of the address space (E), last slots before the recursive
// window (F), and the temporary-mapping page.
func vfVA(i0, i1, i2, i3 uintptr) uintptr {
	va := i0<<39 | i1<<30 | i2<<21 | i3<<12
	if i0&256 != 0 {
		va |= 0xffff000000000000
	}
	return va
}

var vfPageMenu = [7]uintptr{
	vfVA(0, 0, 0, 0), vfVA(0, 0, 0, 1), vfVA(0, 0, 1, 0), vfVA(0, 1, 0, 0), vfVA(256, 0, 0, 0), vfVA(510, 511, 511, 511), tempMappingAddr,
}

// vfPage picks one of the representative pages (enumerated); frames, flags and memory junk stay symbolic.
func vfPage(label string) mm.Page {
	return mm.PageFromAddress(vfPageMenu[zzverif.Choice(label, len(vfPageMenu))])
}

type vfMapping struct {
	page  mm.Page
	frame mm.Frame
	flags PageTableEntryFlag
	live  bool
}

//verif:split 4
func Verif_C04_ops() {
	m := vfBoot(zzverif.Param("frames", 8, 12))
	nops := zzverif.Param("ops", 2, 3)
	var ref [3]vfMapping
	nref := 0
	var changed [3]mm.Page
	nchanged := 0
	for op := 0; op < nops; op++ {
		page := vfPage("page")
		before := m.nflush
		if zzverif.Choice("op", 2) == 0 {
			frame := mm.Frame(zzverif.U64("frame") & (1<<40 - 1))
			flags := PageTableEntryFlag(zzverif.Uintptr("flags") & vfFlagMask &^ uintptr(FlagHugePage))
			err := Map(page, frame, flags)
			if err != nil {
				// the allocator failed: the error is returned and no translation changes (the probe below checks every page)
				zzverif.Reach("map-failed")
				zzverif.Assert(zzverif.And(m.failAt >= 0, m.failAt < m.allocs), "Map fails only when the frame allocator failed")
				continue
			}
			ref[nref] = vfMapping{page, frame, flags, true}
			nref++
		} else {
			err := Unmap(page)
			mapped := false
			for i := 0; i < nref; i++ {
				mapped = zzverif.Or(mapped, zzverif.And(ref[i].live, ref[i].page == page))
			}
			if err != nil {
				zzverif.Reach("unmap-rejected")
				zzverif.Assert(err == ErrInvalidMapping, "error identity")
				continue
			}
			for i := 0; i < nref; i++ {
				ref[i].live = zzverif.And(ref[i].live, ref[i].page != page)
			}
			ref[nref] = vfMapping{page: page, live: false}
			nref++
		}
		changed[nchanged] = page
		nchanged++
		flushed := false
		for i := before; i < m.nflush && i < len(m.flushes); i++ {
			flushed = zzverif.Or(flushed, m.flushes[i] == page.Address())
		}
		zzverif.Assert(flushed, "the TLB entry of every changed page is invalidated")
	}
	zzverif.Reach("applied")
	// an arbitrary probe address
	q := vfPage("probe")
	off := zzverif.Uintptr("offset") & (mm.PageSize - 1)
	va := q.Address() + off
	// reference: the most recent operation on q's page wins
	wantMapped := false
	var wantFrame mm.Frame
	var wantFlags PageTableEntryFlag
	for i := 0; i < nref; i++ {
		hit := ref[i].page == q
		isMap := zzverif.And(ref[i].live, ref[i].flags&FlagPresent != 0)
		wantMapped = zzverif.IteBool(hit, isMap, wantMapped)
		wantFrame = mm.Frame(zzverif.IteU64(hit, uint64(ref[i].frame), uint64(wantFrame)))
		wantFlags = PageTableEntryFlag(zzverif.IteU64(hit, uint64(ref[i].flags), uint64(wantFlags)))
	}
	pa, ok := vfMMU(m.cr3, va)
	zzverif.Assert(ok == wantMapped, "the MMU maps exactly the pages that are currently mapped in the reference (new table levels start empty)")
	if ok {
		zzverif.Assert(pa == wantFrame.Address()+off, "translation = most recently mapped frame + page offset")
		leaf, _ := vfLeaf(m.cr3, va)
		zzverif.Assert(leaf&vfFlagMask == uintptr(wantFlags), "hardware entry carries exactly the requested permission bits")
	}
	tpa, terr := Translate(va)
	zzverif.Assert((terr == nil) == wantMapped, "Translate reports exactly the mapped pages")
	if terr == nil {
		zzverif.Assert(tpa == wantFrame.Address()+off, "Translate yields the mapped frame plus the page offset")
	} else {
		zzverif.Assert(terr == ErrInvalidMapping, "unmapped addresses are reported as such")
	}
	zzverif.Assert(*(*uintptr)(unsafe.Pointer(vfPhysFrame.Address() + 511<<3)) == vfPhysFrame.Address()|uintptr(FlagPresent|FlagRW), "the recursive slot of the active root is intact")
}

// Operations on an address space that is not active leave the active one bit-for-bit as it was.
//
//verif:split 4
func Verif_C04_inactive() {
	m := vfBoot(zzverif.Param("frames", 8, 12))
	// second mode: the MMU caches the translations of the recursive-window pages it has used (a real TLB may keep
	// them until they are invalidated). KF-C04-1: PageDirectoryTable.Map/Unmap swap the recursive slot of the active
	// root and then invalidate the entry's own (identity) address instead of the recursive-window pages whose
	// translation changed, so the inner Map walks the *active* space's tables through stale translations.
	m.tlbCache = zzverif.Choice("tlb-caches", 2) == 1
	zzverif.Known("KF-C04-1", m.tlbCache)
	// something is already mapped in the active space
	p0 := vfPage("page0")
	f0 := mm.Frame(zzverif.U64("frame0") & (1<<40 - 1))
	zzverif.Assume(Map(p0, f0, FlagPresent|FlagRW) == nil)
	// a second, inactive root
	mapTemporaryFn = func(f mm.Frame) (mm.Page, *kernel.Error) { return mm.Page(f), nil } // identity stub, as the repository's tests do
	unmapFn = func(mm.Page) *kernel.Error { return nil }
	mapFn = Map
	f2, err := mm.AllocFrame()
	zzverif.Assume(err == nil)
	var pdt PageDirectoryTable
	zzverif.Assume(pdt.Init(f2) == nil)
	unmapFn = Unmap
	zzverif.Assert(*(*uintptr)(unsafe.Pointer(f2.Address() + 511<<3)) == f2.Address()|uintptr(FlagPresent|FlagRW), "a new address space starts with its recursive slot and nothing else")
	// snapshot of every frame in use by the active space
	used := m.next
	var snap [4][512]uintptr
	var snapFrame [4]int
	ns := 0
	for f := 0; f < used && ns < 4; f++ {
		if vfPhysFrame+mm.Frame(f) == f2 {
			continue
		}
		snapFrame[ns] = f
		for slot := uintptr(0); slot < 512; slot++ {
			snap[ns][slot] = *(*uintptr)(unsafe.Pointer((vfPhysFrame + mm.Frame(f)).Address() + slot<<3))
		}
		ns++
	}
	page := vfPage("page")
	frame := mm.Frame(zzverif.U64("frame") & (1<<40 - 1))
	flags := PageTableEntryFlag(zzverif.Uintptr("flags")&vfFlagMask&^uintptr(FlagHugePage)) | FlagPresent
	// three requests on the inactive space: Map; Map then Unmap; Unmap of a page that was never mapped there (the
	// error path must restore the active root's recursive slot as well: seeded C04-w5m1)
	mode := zzverif.Choice("then-unmap", 3)
	doUnmap := mode == 1
	if mode == 2 {
		err = pdt.Unmap(page)
		zzverif.Assert(err != nil, "unmapping a page that is not mapped in the inactive space reports an error")
		zzverif.Reach("unmap-unmapped")
	} else {
		err = pdt.Map(page, frame, flags)
	}
	if mode != 2 && err != nil {
		zzverif.Reach("map-failed")
		zzverif.Assert(zzverif.And(m.failAt >= 0, m.failAt < m.allocs), "Map fails only when the frame allocator failed")
	} else if doUnmap {
		zzverif.Assert(pdt.Unmap(page) == nil, "a mapped page of the inactive space can be unmapped")
	}
	zzverif.Reach("done")
	zzverif.Assert(m.cr3 == vfPhysFrame.Address(), "the active address space is still the active one")
	for i := 0; i < ns; i++ {
		for slot := uintptr(0); slot < 512; slot++ {
			got := *(*uintptr)(unsafe.Pointer((vfPhysFrame + mm.Frame(snapFrame[i])).Address() + slot<<3))
			zzverif.Assert(got == snap[i][slot], "every page-table frame of the active space is bit-for-bit unchanged (recursive slot restored)")
		}
	}
	// and the inactive space translates as requested
	off := zzverif.Uintptr("offset") & (mm.PageSize - 1)
	pa, ok := vfMMU(f2.Address(), page.Address()+off)
	if err == nil && !doUnmap {
		zzverif.Assert(zzverif.And(ok, pa == frame.Address()+off), "the inactive space now translates the page to the requested frame")
	} else {
		zzverif.Assert(!ok, "the page is not mapped in the inactive space")
	}
	// the active space still translates its own mapping
	pa0, ok0 := vfMMU(m.cr3, p0.Address())
	zzverif.Assert(zzverif.And(ok0, pa0 == f0.Address()), "translations of the active space are unchanged")
}
