//go:build verif

//verif:bounds ring buffer step lemmas: arbitrary (rIndex, wIndex) in [0,2048)^2, all 2048 buffer bytes arbitrary, Write of 0..3 arbitrary bytes, Read into 1..4 bytes, checked at an arbitrary position of the abstract byte sequence; sink hand-over: up to 2 early writes of up to 3 bytes; PrefixWriter: 0..4 arbitrary bytes from either state
package kfmt

import (
	"io"
	"unsafe"

	"github.com/ProjectSerenity/firefly/kernel/zzverif"
)

const vfRingMask = ringBufferSize - 1

func vfRingState(rb *ringBuffer) (r, w, length int) {
	zzverif.Havoc(unsafe.Pointer(&rb.buffer[0]), ringBufferSize, "ring")
	r = zzverif.Int("rIndex")
	w = zzverif.Int("wIndex")
	zzverif.Assume(zzverif.And(r >= 0, r < ringBufferSize))
	zzverif.Assume(zzverif.And(w >= 0, w < ringBufferSize))
	rb.rIndex, rb.wIndex = r, w
	return r, w, (w - r) & vfRingMask
}

// Write appends p to the abstract sequence, dropping the oldest bytes beyond 2047.
func Verif_C16_ring_write() {
	var rb ringBuffer
	r, _, len0 := vfRingState(&rb)
	n := zzverif.Choice("plen", 4)
	p := zzverif.Bytes("p", 3)[:n]
	total := len0 + n
	len1 := total
	if len1 > ringBufferSize-1 {
		len1 = ringBufferSize - 1
	}
	drop := total - len1
	// an arbitrary position j of the expected sequence, read from the pre-state
	j := zzverif.Int("pos")
	zzverif.Assume(zzverif.And(j >= 0, j < len1))
	idx := j + drop
	var want byte
	if idx < len0 {
		want = rb.buffer[(r+idx)&vfRingMask]
	} else {
		want = p[idx-len0]
	}
	wrote, err := rb.Write(p)
	zzverif.Assert(zzverif.And(wrote == n, err == nil), "Write reports all bytes written")
	zzverif.Assert(zzverif.And(rb.rIndex >= 0, rb.rIndex < ringBufferSize), "rIndex stays in range")
	zzverif.Assert(zzverif.And(rb.wIndex >= 0, rb.wIndex < ringBufferSize), "wIndex stays in range")
	got := (rb.wIndex - rb.rIndex) & vfRingMask
	zzverif.Assert(got == len1, "buffered length is min(old+len(p), 2047): oldest bytes dropped first")
	zzverif.Reach("written")
	zzverif.Assert(rb.buffer[(rb.rIndex+j)&vfRingMask] == want, "buffered bytes are the old bytes followed by p, in order")
}

// Read returns a non-empty prefix of the abstract sequence and removes exactly it; EOF iff empty.
func Verif_C16_ring_read() {
	var rb ringBuffer
	r, w, len0 := vfRingState(&rb)
	m := 1 + zzverif.Choice("plen", 4)
	var dst [4]byte
	p := dst[:m]
	// an arbitrary position of the old sequence, read before the call
	j := zzverif.Int("pos")
	zzverif.Assume(zzverif.And(j >= 0, j < 4))
	old := rb.buffer[(r+j)&vfRingMask]
	n, err := rb.Read(p)
	if len0 == 0 {
		zzverif.Reach("empty")
		zzverif.Assert(zzverif.And(n == 0, err == io.EOF), "empty buffer: (0, EOF)")
		zzverif.Assert(zzverif.And(rb.rIndex == r, rb.wIndex == w), "empty read changes nothing")
		return
	}
	zzverif.Reach("data")
	zzverif.Assert(err == nil, "data available: no error")
	zzverif.Assert(zzverif.And(n >= 1, zzverif.And(n <= m, n <= len0)), "1 <= n <= min(len(p), buffered)")
	zzverif.Assert(rb.wIndex == w, "Read does not move the write index")
	zzverif.Assert(zzverif.And(rb.rIndex >= 0, rb.rIndex < ringBufferSize), "rIndex stays in range")
	zzverif.Assert(rb.rIndex == (r+n)&vfRingMask, "exactly the returned bytes are removed")
	if j < n {
		zzverif.Assert(p[j] == old, "returned bytes are the oldest buffered bytes, in order")
	}
	zzverif.Assert(rb.buffer[(r+j)&vfRingMask] == old, "Read does not modify the buffer")
}

type vfRec struct {
	b [16]byte
	n int
}

func (s *vfRec) Write(p []byte) (int, error) {
	for i := 0; i < len(p); i++ {
		if s.n < len(s.b) {
			s.b[s.n] = p[i]
		}
		s.n++
	}
	return len(p), nil
}

// Early log output is replayed to the first sink exactly once, in order, ahead of later output.
func Verif_C16_sink_handover() {
	earlyPrintBuffer = ringBuffer{}
	outputSink = nil
	var exp [16]byte
	ne := 0
	e := zzverif.Choice("early", 3)
	for i := 0; i < e; i++ {
		n := zzverif.Choice("len", 4)
		data := zzverif.Bytes("early", 3)[:n]
		Printf("%s", data)
		for k := 0; k < n; k++ {
			exp[ne] = data[k]
			ne++
		}
	}
	var rec vfRec
	SetOutputSink(&rec)
	zzverif.Assert(rec.n == ne, "everything logged before the sink appeared is replayed exactly once")
	later := zzverif.Bytes("later", 2)
	Printf("%s", later)
	exp[ne], exp[ne+1] = later[0], later[1]
	zzverif.Assert(rec.n == ne+2, "later output follows")
	zzverif.Reach("handed-over")
	for k := 0; k < ne+2; k++ {
		zzverif.Assert(rec.b[k] == exp[k], "early bytes first and in order, then later output")
	}
	zzverif.Assert(GetOutputSink() == io.Writer(&rec), "the sink is the new target")
}

// PrefixWriter: prefix at the start of every line, returned count excludes prefixes.
func Verif_C16_prefix_writer() {
	var rec vfRec
	prefix := []byte{'>', ' '}
	w := PrefixWriter{Sink: &rec, Prefix: prefix}
	mid := zzverif.Bool("midline")
	if mid {
		w.bytesAfterPrefix = 1 + zzverif.Choice("after", 2)
	}
	n := zzverif.Choice("len", 5)
	data := zzverif.Bytes("data", 4)[:n]
	wrote, err := w.Write(data)
	zzverif.Assert(zzverif.And(wrote == n, err == nil), "returned count is len(p), prefixes excluded")
	// reference interleaving
	var exp [16]byte
	ne := 0
	atLineStart := !mid
	for i := 0; i < n; i++ {
		if atLineStart {
			exp[ne], exp[ne+1] = '>', ' '
			ne += 2
			atLineStart = false
		}
		exp[ne] = data[i]
		ne++
		if data[i] == '\n' {
			atLineStart = true
		}
	}
	zzverif.Reach("written")
	zzverif.Assert(rec.n == ne, "sink receives the data plus one prefix per started line")
	if rec.n == ne {
		for k := 0; k < ne; k++ {
			zzverif.Assert(rec.b[k] == exp[k], "prefix precedes the first byte of every line")
		}
	}
	zzverif.Assert((w.bytesAfterPrefix == 0) == (atLineStart || (n == 0 && !mid)), "line-start state tracked for the next write")
}
