//go:build verif

//verif:bounds fmtInt: all eleven built-in integer types (uint8..uint64, uint, uintptr, int8..int64, int) x base 8/10/16, value over the whole range of the type; padLen any int in the pad harness (values of at most 2 digits there); %s/%t: strings and byte slices of 0..3 bytes, widths 0..6; Fprintf scan: format strings of L fully symbolic bytes (quick 3, thorough 4) and the 5-byte shape %<digit><verb>%<verb> with three symbolic bytes, up to 2 arguments
//verif:assumes output is captured by a harness io.Writer with a 48-byte buffer (writing past it is a Go index panic, i.e. a violation)
package kfmt

import "github.com/ProjectSerenity/firefly/kernel/zzverif"

const vfSinkCap = 48

type vfSink struct {
	b [vfSinkCap]byte
	n int
}

func (s *vfSink) Write(p []byte) (int, error) {
	for i := 0; i < len(p); i++ {
		s.b[s.n] = p[i]
		s.n++
	}
	return len(p), nil
}

// vfIntArg returns an arbitrary value of the k-th built-in integer type as interface{},
// together with its sign and magnitude (computed without division).
func vfIntArg(k int) (v interface{}, neg bool, mag uint64) {
	switch k {
	case 0:
		x := zzverif.U8("v")
		return x, false, uint64(x)
	case 1:
		x := zzverif.U16("v")
		return x, false, uint64(x)
	case 2:
		x := zzverif.U32("v")
		return x, false, uint64(x)
	case 3:
		x := zzverif.U64("v")
		return x, false, x
	case 4:
		x := zzverif.Uintptr("v")
		return x, false, uint64(x)
	case 5:
		x := int8(zzverif.U8("v"))
		return x, x < 0, vfAbs(int64(x))
	case 6:
		x := int16(zzverif.U16("v"))
		return x, x < 0, vfAbs(int64(x))
	case 7:
		x := int32(zzverif.U32("v"))
		return x, x < 0, vfAbs(int64(x))
	case 8:
		x := int64(zzverif.U64("v"))
		return x, x < 0, vfAbs(x)
	case 9:
		x := zzverif.Int("v")
		return x, x < 0, vfAbs(int64(x))
	default:
		x := uint(zzverif.U64("v"))
		return x, false, uint64(x)
	}
}

func vfAbs(x int64) uint64 {
	return zzverif.IteU64(x < 0, uint64(-x), uint64(x)) // -MinInt64 wraps to 2^63, its magnitude
}

func vfDigitVal(d byte, base uint64) (uint64, bool) {
	isDec := zzverif.And(d >= '0', d <= '9')
	isHex := zzverif.And(d >= 'a', d <= 'f')
	val := zzverif.IteU64(isDec, uint64(d-'0'), uint64(d-'a')+10)
	return val, zzverif.And(zzverif.Or(isDec, isHex), val < base)
}

// vfCheckDigits: s.b[start:end] are digits of base `base`, reconstruct to mag, no leading zero.
func vfCheckDigits(s *vfSink, start, end int, mag uint64, base uint64) {
	n := end - start
	zzverif.Assert(zzverif.And(n >= 1, n <= 22), "digit count between 1 and 22")
	var acc uint64
	for i := start; i < end; i++ {
		dv, ok := vfDigitVal(s.b[i], base)
		zzverif.Assert(ok, "every character is a digit of the base")
		acc = acc*base + dv
	}
	zzverif.Assert(acc == mag, "digits reconstruct the magnitude")
	zzverif.Assert(zzverif.Or(n == 1, s.b[start] != '0'), "no leading zero")
}

func vfBase(k int) int { return [3]int{8, 10, 16}[k] }

func vfIntDigits(base int) {
	v, neg, mag := vfIntArg(zzverif.Choice("type", 11))
	var s vfSink
	fmtInt(&s, v, base, 0)
	zzverif.Reach("formatted")
	if neg {
		zzverif.Reach("negative")
		zzverif.Assert(zzverif.And(s.n >= 2, s.b[0] == '-'), "negative values start with a minus sign")
		if s.n >= 2 {
			vfCheckDigits(&s, 1, s.n, mag, uint64(base))
		}
	} else {
		vfCheckDigits(&s, 0, s.n, mag, uint64(base))
	}
}

// Exact digits and sign for every integer type, no padding; one harness per base.
//
//verif:split 5
//verif:backend int
func Verif_C15_int_digits_dec() { vfIntDigits(10) }

//verif:split 5
//verif:backend z3
func Verif_C15_int_digits_hex() { vfIntDigits(16) }

//verif:split 5
func Verif_C15_int_digits_oct() { vfIntDigits(8) }

// Padding: any padLen, small magnitudes; width clamp at 31, pad characters per base.
//
//verif:split 5
//verif:backend int
func Verif_C15_int_pad() {
	base := vfBase(zzverif.Choice("base", 3))
	signed := zzverif.Choice("signed", 2) == 1
	raw := zzverif.U8("v")
	var v interface{}
	var neg bool
	var mag uint64
	if signed {
		x := int64(int8(raw))
		v, neg, mag = x, x < 0, vfAbs(x)
	} else {
		v, neg, mag = uint64(raw), false, uint64(raw)
	}
	padLen := zzverif.Int("padLen")
	var s vfSink
	fmtInt(&s, v, base, padLen)
	width := padLen
	if width > 31 {
		width = 31
	}
	if width < 0 {
		width = 0
	}
	// locate the digits: skip pad characters and sign from the left
	padCh := byte('0')
	if base == 10 {
		padCh = ' '
	}
	i := 0
	if base == 10 {
		for i < s.n && s.b[i] == ' ' {
			i++
		}
		if neg {
			zzverif.Assert(zzverif.And(i < s.n, s.b[i] == '-'), "decimal: sign directly before the digits")
			i++
		}
		zzverif.Assert(i < s.n, "at least one digit")
		if i < s.n {
			vfCheckDigits(&s, i, s.n, mag, 10)
		}
		minLen := width
		zzverif.Assert(s.n >= minLen, "padded to the width")
		// exact length: max(width, digits+sign)
		digits := s.n - i
		body := digits
		if neg {
			body++
		}
		if body >= width {
			zzverif.Assert(s.n == body, "no padding when the value fills the width")
		} else {
			zzverif.Assert(s.n == width, "exactly width characters")
		}
		return
	}
	// octal / hex: zero padded; the sign (if any) comes first, its column is not specified
	if neg {
		zzverif.Assert(zzverif.And(s.n >= 2, s.b[0] == '-'), "negative values start with a minus sign")
		i = 1
	}
	_ = padCh
	// digits after the sign reconstruct the magnitude (leading zeros are padding)
	var acc uint64
	for k := i; k < s.n; k++ {
		dv, ok := vfDigitVal(s.b[k], uint64(base))
		zzverif.Assert(ok, "every character is a digit of the base")
		acc = acc*uint64(base) + dv
	}
	zzverif.Assert(acc == mag, "digits reconstruct the magnitude")
	zzverif.Assert(s.n-i >= 1, "at least one digit")
	if neg {
		zzverif.Assert(zzverif.Or(s.n == width, zzverif.Or(s.n == width+1, s.n-i <= 3)), "zero padded to the width (sign column unspecified)")
	} else {
		zzverif.Assert(s.n >= width, "zero padded to the width")
		zzverif.Assert(zzverif.Or(s.n == width, zzverif.And(s.n > width, zzverif.Or(s.b[0] != '0', s.n == 1))), "no more padding than the width")
	}
}

// %s and %t and wrong types through the real Fprintf.
func Verif_C15_str_bool() {
	var s vfSink
	kind := zzverif.Choice("kind", 6)
	switch kind {
	case 0, 1: // string / []byte with width
		n := zzverif.Choice("len", 4)
		data := zzverif.Bytes("data", 3)[:n]
		width := zzverif.Choice("width", 7)
		format := [7]string{"%s", "%1s", "%2s", "%3s", "%4s", "%5s", "%6s"}[width]
		if kind == 0 {
			Fprintf(&s, format, string(data))
		} else {
			Fprintf(&s, format, data)
		}
		pad := width - n
		if pad < 0 {
			pad = 0
		}
		zzverif.Assert(s.n == pad+n, "string output length is max(width, len)")
		if s.n == pad+n {
			for i := 0; i < pad; i++ {
				zzverif.Assert(s.b[i] == ' ', "left padded with spaces")
			}
			for i := 0; i < n; i++ {
				zzverif.Assert(s.b[pad+i] == data[i], "string bytes unchanged")
			}
		}
	case 2: // bool
		b := zzverif.Bool("b")
		Fprintf(&s, "%t", b)
		if b {
			zzverif.Assert(vfEq(&s, "true"), "true")
		} else {
			zzverif.Assert(vfEq(&s, "false"), "false")
		}
	case 3: // wrong type for %t
		Fprintf(&s, "%t", zzverif.U8("x"))
		zzverif.Assert(vfEq(&s, "%!(WRONGTYPE)"), "wrong type marker for %t")
	case 4: // wrong type for %s
		Fprintf(&s, "%s", zzverif.Bool("x"))
		zzverif.Assert(vfEq(&s, "%!(WRONGTYPE)"), "wrong type marker for %s")
	case 5: // wrong type for integers
		base := zzverif.Choice("verb", 3)
		Fprintf(&s, [3]string{"%d", "%x", "%o"}[base], "str")
		zzverif.Assert(vfEq(&s, "%!(WRONGTYPE)"), "wrong type marker for integer verbs")
	}
	zzverif.Reach("done")
}

func vfEq(s *vfSink, want string) bool {
	if s.n != len(want) {
		return false
	}
	r := true
	for i := 0; i < len(want); i++ {
		r = zzverif.And(r, s.b[i] == want[i])
	}
	return r
}

// vfLongSink keeps the first bytes and counts the rest (wide paddings must not overflow the harness).
type vfLongSink struct {
	b [vfSinkCap]byte
	n int
}

func (s *vfLongSink) Write(p []byte) (int, error) {
	for i := 0; i < len(p); i++ {
		if s.n < vfSinkCap {
			s.b[s.n] = p[i]
		}
		s.n++
	}
	return len(p), nil
}

type vfOut struct {
	b [vfSinkCap]byte
	n int
}

func (o *vfOut) put(c byte) {
	if o.n < vfSinkCap {
		o.b[o.n] = c
	}
	o.n++
}
func (o *vfOut) puts(s string) {
	for i := 0; i < len(s); i++ {
		o.put(s[i])
	}
}
func (o *vfOut) rep(c byte, n int) {
	for i := 0; i < n; i++ {
		o.put(c)
	}
}

// The whole format scanner: every format string of L bytes, fixed argument lists.
// Inside the documented language the output must equal the reference; for every
// format string whatsoever Fprintf must not panic.
//
//verif:split 6
func Verif_C15_scan() {
	L := zzverif.Param("fmtlen", 3, 4)
	vfScanCheck(zzverif.Bytes("fmt", 4)[:L], L)
}

// Two adjacent directives, the first with a one-digit width: "%<digit><verb>%<verb>" with the digit and both verb
// bytes symbolic (a width must not leak into the directive that follows it without literal text in between).
//
//verif:split 6
func Verif_C15_scan_adjacent() {
	raw := zzverif.Bytes("fmt", 5)
	zzverif.Assume(zzverif.And(raw[0] == '%', raw[3] == '%'))
	zzverif.Assume(zzverif.And(raw[1] >= '0', raw[1] <= '9'))
	vfScanCheck(raw, 5)
}

func vfScanCheck(raw []byte, L int) {
	format := string(raw)
	argSel := zzverif.Choice("args", 5)
	var args []interface{}
	switch argSel {
	case 1:
		args = []interface{}{uint8(5)}
	case 2:
		args = []interface{}{"xy"}
	case 3:
		args = []interface{}{uint8(5), "xy"}
	case 4:
		args = []interface{}{true, int64(5)}
	}
	// reference
	var want vfOut
	specified := true
	i, argi := 0, 0
	for i < L && specified {
		c := raw[i]
		if c != '%' {
			want.put(c)
			i++
			continue
		}
		i++
		w, nd := 0, 0
		for i < L && raw[i] >= '0' && raw[i] <= '9' {
			w = w*10 + int(raw[i]-'0')
			nd++
			i++
		}
		if i >= L {
			specified = false
			break
		}
		v := raw[i]
		i++
		switch v {
		case '%':
			if nd > 0 {
				specified = false
			}
			want.put('%')
		case 'd', 'o', 'x', 's', 't':
			if argi >= len(args) {
				want.puts("(MISSING)")
				break
			}
			a := args[argi]
			argi++
			switch v {
			case 's':
				if s, ok := a.(string); ok {
					want.rep(' ', w-len(s))
					want.puts(s)
				} else {
					want.puts("%!(WRONGTYPE)")
				}
			case 't':
				if b, ok := a.(bool); ok && b {
					want.puts("true")
				} else {
					want.puts("%!(WRONGTYPE)")
				}
			default:
				_, isU8 := a.(uint8)
				_, isI64 := a.(int64)
				if !isU8 && !isI64 {
					want.puts("%!(WRONGTYPE)")
					break
				}
				if w > 31 {
					w = 31
				}
				pad := byte('0')
				if v == 'd' {
					pad = ' '
				}
				want.rep(pad, w-1)
				want.put('5')
			}
		default:
			specified = false
		}
	}
	if specified {
		for ; argi < len(args); argi++ {
			want.puts("%!(EXTRA)")
		}
	}
	var s vfLongSink
	panicked := zzverif.Catch(func() { Fprintf(&s, format, args...) })
	zzverif.Assert(!panicked, "Fprintf never panics, whatever the format string and arguments")
	if !specified {
		zzverif.Reach("outside-language")
		return
	}
	zzverif.Reach("inside-language")
	zzverif.Assert(s.n == want.n, "output length equals the reference")
	if s.n == want.n {
		for k := 0; k < s.n && k < vfSinkCap; k++ {
			zzverif.Assert(s.b[k] == want.b[k], "output equals the reference formatter")
		}
	}
}
