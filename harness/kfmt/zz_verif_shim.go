//go:build verif

package kfmt

// VerifResetLog clears the early-log ring buffer and the output sink (harness set-up only).
func VerifResetLog() {
	earlyPrintBuffer = ringBuffer{}
	outputSink = nil
}
