//go:build verif

package console

// Export shims used by harnesses of other packages (tty, hal) to set up driver state directly.

func VerifVgaSetFb(c *VgaTextConsole, fb []uint16) { c.fb = fb }
func VerifVgaFb(c *VgaTextConsole) []uint16        { return c.fb }
