//go:build verif

package console

import "github.com/ProjectSerenity/firefly/kernel/device/video/console/font"

// Export shims used by harnesses of other packages (tty, hal) to set up driver state directly.

func VerifVgaSetFb(c *VgaTextConsole, fb []uint16) { c.fb = fb }
func VerifVgaFb(c *VgaTextConsole) []uint16        { return c.fb }

// VerifNewFb8 builds an 8 bpp VesaFbConsole over the given frame buffer slice, with a logo offset and a font, without
// going through DriverInit (which maps physical memory).
func VerifNewFb8(width, height, pitch, offsetY uint32, f *font.Font, fb []byte) *VesaFbConsole {
	portWriteByteFn = func(uint16, uint8) {}
	c := NewVesaFbConsole(width, height, 8, pitch, nil, 0)
	c.loadDefaultPalette()
	c.offsetY = offsetY
	c.SetFont(f)
	c.fb = fb
	return c
}
func VerifFb(c *VesaFbConsole) []byte { return c.fb }
