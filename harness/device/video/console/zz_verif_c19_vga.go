//go:build verif

//verif:bounds text mode: grid width x height from {1,2,3}x{1,2,3} (quick) / {1..4}x{1..3} (thorough), every cell of the buffer arbitrary, every 32-bit x, y, width, height, line count and every 8-bit character/colour argument
//verif:assumes the frame buffer is a Go slice of exactly width*height cells, so any access outside it is a Go index panic (a violation)
package console

import "github.com/ProjectSerenity/firefly/kernel/zzverif"

const vfMaxCells = 12

type vfVga struct {
	cons *VgaTextConsole
	w, h uint32
	old  [vfMaxCells]uint16
}

func vfNewVga() *vfVga {
	w := uint32(1 + zzverif.Choice("cols", zzverif.Param("maxcols", 3, 4)))
	h := uint32(1 + zzverif.Choice("rows", zzverif.Param("maxrows", 3, 3)))
	v := &vfVga{w: w, h: h}
	v.cons = NewVgaTextConsole(w, h, 0)
	v.cons.fb = make([]uint16, w*h)
	for i := uint32(0); i < w*h; i++ {
		v.old[i] = zzverif.U16("cell")
		v.cons.fb[i] = v.old[i]
	}
	return v
}

func Verif_C19_vga_write() {
	v := vfNewVga()
	ch, fg, bg := zzverif.U8("ch"), zzverif.U8("fg"), zzverif.U8("bg")
	x, y := zzverif.U32("x"), zzverif.U32("y")
	panicked := zzverif.Catch(func() { v.cons.Write(ch, fg, bg, x, y) })
	zzverif.Assert(!panicked, "Write never touches memory outside the buffer")
	inGrid := zzverif.And(zzverif.And(x >= 1, x <= v.w), zzverif.And(y >= 1, y <= v.h))
	for cy := uint32(1); cy <= v.h; cy++ {
		for cx := uint32(1); cx <= v.w; cx++ {
			i := (cy-1)*v.w + (cx - 1)
			here := zzverif.And(inGrid, zzverif.And(x == cx, y == cy))
			got := v.cons.fb[i]
			zzverif.Assert(zzverif.Or(here, got == v.old[i]), "cells other than the addressed one are unchanged; nothing changes for coordinates outside the grid")
			zzverif.Assert(zzverif.Implies(here, uint8(got) == ch), "addressed cell shows the character")
			exact := (uint16(bg)<<4|uint16(fg))<<8 | uint16(ch)
			zzverif.Assert(zzverif.Implies(zzverif.And(here, zzverif.And(fg <= 15, bg <= 15)), got == exact), "addressed cell carries the requested foreground and background colours")
		}
	}
	zzverif.Reach("done")
}

//verif:split 4
func Verif_C19_vga_fill() {
	v := vfNewVga()
	fg, bg := zzverif.U8("fg"), zzverif.U8("bg")
	zzverif.Assume(zzverif.And(fg <= 15, bg <= 15))
	x, y, w, h := zzverif.U32("x"), zzverif.U32("y"), zzverif.U32("w"), zzverif.U32("h")
	panicked := zzverif.Catch(func() { v.cons.Fill(x, y, w, h, fg, bg) })
	zzverif.Assert(!panicked, "Fill never touches memory outside the buffer")
	if panicked {
		return
	}
	// reference rectangle, computed in 64 bits (no wrap-around)
	ox := uint64(zzverif.IteU32(x == 0, 1, zzverif.IteU32(x >= v.w, v.w, x)))
	oy := uint64(zzverif.IteU32(y == 0, 1, zzverif.IteU32(y >= v.h, v.h, y)))
	ex := ox + uint64(w) // exclusive
	ey := oy + uint64(h)
	ex = zzverif.IteU64(ex > uint64(v.w)+1, uint64(v.w)+1, ex)
	ey = zzverif.IteU64(ey > uint64(v.h)+1, uint64(v.h)+1, ey)
	clr := (uint16(bg)<<4|uint16(fg))<<8 | uint16(' ')
	for cy := uint32(1); cy <= v.h; cy++ {
		for cx := uint32(1); cx <= v.w; cx++ {
			i := (cy-1)*v.w + (cx - 1)
			in := zzverif.And(zzverif.And(uint64(cx) >= ox, uint64(cx) < ex), zzverif.And(uint64(cy) >= oy, uint64(cy) < ey))
			want := zzverif.IteU16(in, clr, v.old[i])
			zzverif.Assert(v.cons.fb[i] == want, "exactly the cells of the clamped, clipped rectangle are filled")
		}
	}
	zzverif.Reach("done")
}

//verif:split 3
func Verif_C19_vga_scroll() {
	v := vfNewVga()
	lines := zzverif.U32("lines")
	dir := ScrollDir(zzverif.Choice("dir", 2))
	panicked := zzverif.Catch(func() { v.cons.Scroll(dir, lines) })
	zzverif.Assert(!panicked, "Scroll never touches memory outside the buffer")
	if panicked {
		return
	}
	valid := zzverif.And(lines >= 1, lines <= v.h)
	for cy := uint32(0); cy < v.h; cy++ {
		for cx := uint32(0); cx < v.w; cx++ {
			i := cy*v.w + cx
			got := v.cons.fb[i]
			zzverif.Assert(zzverif.Or(valid, got == v.old[i]), "line counts outside 1..height are ignored")
			// source row for a valid scroll (if the row receives data)
			for l := uint32(1); l <= v.h; l++ {
				if dir == ScrollDirUp && cy+l < v.h {
					zzverif.Assert(zzverif.Implies(lines == l, got == v.old[(cy+l)*v.w+cx]), "scroll up moves every line up by the line count")
				}
				if dir == ScrollDirDown && cy >= l {
					zzverif.Assert(zzverif.Implies(lines == l, got == v.old[(cy-l)*v.w+cx]), "scroll down moves every line down by the line count")
				}
			}
		}
	}
	zzverif.Reach("done")
}
