//go:build verif

//verif:bounds framebuffer console: depth 8/16 (Fill: 8/16/24) with pitch padding 11 (more than one glyph of 8 bpp pixels, so that a column count derived from the pitch would differ; odd, so that rows go out of step with 2- and 3-byte pixels) and a one-row logo (quick) or depth 8/15/16/24/32, padding {0,11}, logo {0,1} (thorough), RGB mask layout 5-5-5/5-6-5/8-8-8 (quick) or fully symbolic positions/sizes (thorough), colour indices 0..15 (quick) / 0..255 (thorough), pitch = row bytes + {0,11}, logo offset {0,1} rows, synthetic fonts 8x2 (1 byte/row) and 9x2 (2 bytes/row) with 4 glyphs of symbolic data, grid 2x2 cells plus one remainder column and one remainder row; every framebuffer byte arbitrary; every 32-bit x, y, width, height, line count; character < 4 (the synthetic fonts have 4 glyphs), every 8-bit colour index; SetPaletteColor: concrete checkerboard picture of two palette colours with padding bytes 0xee, new colour symbolic; fb_pack32: 32 bpp with R@24 G@16 B@8, Fill of one cell
//verif:assumes the frame buffer is a Go slice of exactly height*pitch bytes (an access outside it is a Go index panic = violation); palette = the driver's own default palette; port writes stubbed
package console

import (
	"image/color"

	"github.com/ProjectSerenity/firefly/kernel/device/video/console/font"
	"github.com/ProjectSerenity/firefly/kernel/multiboot"
	"github.com/ProjectSerenity/firefly/kernel/zzverif"
)

const vfFbMax = 640

type vfFb struct {
	cons                                  *VesaFbConsole
	n                                     int
	old                                   [vfFbMax]byte
	gw, gh, bpr, cols, rows, rc, rr       uint32
	pad, offY, bpp, bytesPP, pitch, width uint32
	height                                uint32
	ci                                    *multiboot.FramebufferRGBColorInfo
	fontData                              []byte
}

func vfNewFb(quickDepths int) *vfFb {
	// quick: 8 and 16 bpp (Fill: also 24, which has its own fill routine); thorough: all five depths
	return vfNewFbDepth([5]uint32{8, 16, 24, 15, 32}[zzverif.Choice("bpp", zzverif.Param("depths", quickDepths, 5))], nil)
}

// vfNewFbDepth: ci == nil selects the usual mask layout of the depth (quick) or a symbolic one (thorough).
func vfNewFbDepth(bpp uint32, ci *multiboot.FramebufferRGBColorInfo) *vfFb {
	f := &vfFb{}
	f.bpp = bpp
	if zzverif.Choice("font", 2) == 0 {
		f.gw, f.bpr = 8, 1
	} else {
		f.gw, f.bpr = 9, 2
	}
	f.gh = 2
	f.cols, f.rows = 2, 2
	f.rc, f.rr = 1, 1
	f.pad = [2]uint32{11, 0}[zzverif.Choice("pad", zzverif.Param("pads", 1, 2))]
	f.offY = uint32([2]int{1, 0}[zzverif.Choice("logo", zzverif.Param("logos", 1, 2))])
	f.bytesPP = (f.bpp + 1) >> 3
	f.width = f.cols*f.gw + f.rc
	f.height = f.offY + f.rows*f.gh + f.rr
	f.pitch = f.width*f.bytesPP + f.pad
	if ci != nil {
		f.ci = ci
	} else if zzverif.Tier() == 1 {
		// thorough: arbitrary mask layout
		f.ci = &multiboot.FramebufferRGBColorInfo{
			RedPosition: zzverif.U8("rpos"), RedMaskSize: zzverif.U8("rsize"),
			GreenPosition: zzverif.U8("gpos"), GreenMaskSize: zzverif.U8("gsize"),
			BluePosition: zzverif.U8("bpos"), BlueMaskSize: zzverif.U8("bsize"),
		}
	} else {
		// quick: the usual layouts (5-5-5, 5-6-5, 8-8-8)
		switch f.bpp {
		case 15:
			f.ci = &multiboot.FramebufferRGBColorInfo{RedPosition: 10, RedMaskSize: 5, GreenPosition: 5, GreenMaskSize: 5, BluePosition: 0, BlueMaskSize: 5}
		case 16:
			f.ci = &multiboot.FramebufferRGBColorInfo{RedPosition: 11, RedMaskSize: 5, GreenPosition: 5, GreenMaskSize: 6, BluePosition: 0, BlueMaskSize: 5}
		default:
			f.ci = &multiboot.FramebufferRGBColorInfo{RedPosition: 16, RedMaskSize: 8, GreenPosition: 8, GreenMaskSize: 8, BluePosition: 0, BlueMaskSize: 8}
		}
	}
	portWriteByteFn = func(uint16, uint8) {}
	f.cons = NewVesaFbConsole(f.width, f.height, uint8(f.bpp), f.pitch, f.ci, 0)
	f.cons.loadDefaultPalette()
	f.cons.offsetY = f.offY
	f.fontData = zzverif.Bytes("glyphs", int(4*f.bpr*f.gh))
	f.cons.SetFont(&font.Font{Name: "verif", GlyphWidth: f.gw, GlyphHeight: f.gh, BytesPerRow: f.bpr, Data: f.fontData})
	f.n = int(f.height * f.pitch)
	f.cons.fb = zzverif.Bytes("fb", f.n)
	for i := 0; i < f.n; i++ {
		f.old[i] = f.cons.fb[i]
	}
	return f
}

// vfColour: quick tier uses the 16 EGA colours, thorough every palette index.
func vfColour(label string) uint8 {
	c := zzverif.U8(label)
	if zzverif.Tier() == 0 {
		c &= 15
	}
	return c
}

// pack is an independent re-statement of the pixel format: component c of palette colour idx.
func (f *vfFb) pack(idx uint8, comp uint32) byte {
	if f.bpp == 8 {
		return idx
	}
	c := f.cons.palette[idx].(color.RGBA)
	var packed uint32
	packed |= uint32(c.R>>(8-f.ci.RedMaskSize)) << f.ci.RedPosition
	packed |= uint32(c.G>>(8-f.ci.GreenMaskSize)) << f.ci.GreenPosition
	packed |= uint32(c.B>>(8-f.ci.BlueMaskSize)) << f.ci.BluePosition
	if f.bpp <= 16 {
		packed &= 0xffff
	}
	return byte(packed >> (8 * comp))
}

// written: how many bytes of a pixel the driver writes at this depth.
func (f *vfFb) written() uint32 {
	switch f.bpp {
	case 8:
		return 1
	case 15, 16:
		return 2
	case 32:
		return 4 // a 32 bpp pixel is four bytes: a colour mask may place a channel in the fourth
	}
	return 3
}

// glyphBit: is pixel (rx, ry) of glyph ch set?
func (f *vfFb) glyphBit(ch uint8, rx, ry uint32) bool {
	b := f.fontData[uint32(ch)*f.bpr*f.gh+ry*f.bpr+rx/8]
	return b&(0x80>>(rx%8)) != 0
}

func (f *vfFb) checkFrame(i int) bool { return f.cons.fb[i] == f.old[i] }

// classify byte i: returns (isPixelByte, cellX, cellY (1-based, 0 = outside the grid), rx, ry, comp)
func (f *vfFb) classify(i int) (pix bool, cx, cy, rx, ry, comp uint32) {
	row := uint32(i) / f.pitch
	cb := uint32(i) % f.pitch
	if cb >= f.width*f.bytesPP {
		return false, 0, 0, 0, 0, 0
	}
	px := cb / f.bytesPP
	comp = cb % f.bytesPP
	if row < f.offY || row >= f.offY+f.rows*f.gh || px >= f.cols*f.gw {
		return true, 0, 0, 0, 0, comp
	}
	return true, px/f.gw + 1, (row-f.offY)/f.gh + 1, px % f.gw, (row - f.offY) % f.gh, comp
}

//verif:split 5
func Verif_C19_fb_write() { vfFbWriteOn(vfNewFb(2)) }

func vfFbWriteOn(f *vfFb) {
	ch, fg, bg := zzverif.U8("ch")&3, vfColour("fg"), vfColour("bg")
	x, y := zzverif.U32("x"), zzverif.U32("y")
	// case split: coordinates inside the grid are enumerated (so that pixel addresses are concrete on each
	// path), coordinates outside it stay symbolic; together the cases cover every 32-bit x, y
	// (values just outside the grid are enumerated too: a driver that wrongly accepts them then works on concrete addresses)
	if x <= f.cols+2 {
		x = uint32(zzverif.Split("x", uint64(x), 6))
	}
	if y <= f.rows+2 {
		y = uint32(zzverif.Split("y", uint64(y), 6))
	}
	panicked := zzverif.Catch(func() { f.cons.Write(ch, fg, bg, x, y) })
	zzverif.Assert(!panicked, "Write never touches memory outside the framebuffer")
	if panicked {
		return
	}
	for i := 0; i < f.n; i++ {
		pix, cx, cy, rx, ry, comp := f.classify(i)
		if !pix || cx == 0 || comp >= f.written() {
			zzverif.Assert(f.checkFrame(i), "logo rows, remainder rows/columns, padding bytes and unused pixel bytes are never written")
			continue
		}
		here := zzverif.And(x == cx, y == cy)
		// (select between the two packed colours rather than packing the selected colour: same meaning, far cheaper for the solver)
		col := zzverif.IteU8(f.glyphBit(ch, rx, ry), f.pack(fg, comp), f.pack(bg, comp))
		want := zzverif.IteU8(here, col, f.old[i])
		zzverif.Assert(f.cons.fb[i] == want, "exactly the addressed cell is painted: glyph bits in the foreground colour, the rest in the background colour")
	}
	zzverif.Reach("done")
}

//verif:split 5
func Verif_C19_fb_fill() {
	f := vfNewFb(3)
	bg := vfColour("bg")
	x, y, w, h := zzverif.U32("x"), zzverif.U32("y"), zzverif.U32("w"), zzverif.U32("h")
	// case split as in fb_write: small values are enumerated, large ones stay symbolic (the driver clamps them to constants)
	if x <= f.cols+2 {
		x = uint32(zzverif.Split("x", uint64(x), 6))
	}
	if y <= f.rows+2 {
		y = uint32(zzverif.Split("y", uint64(y), 6))
	}
	if w <= f.cols+2 {
		w = uint32(zzverif.Split("w", uint64(w), 6))
	}
	if h <= f.rows+2 {
		h = uint32(zzverif.Split("h", uint64(h), 6))
	}
	panicked := zzverif.Catch(func() { f.cons.Fill(x, y, w, h, 0, bg) })
	zzverif.Assert(!panicked, "Fill never touches memory outside the framebuffer")
	if panicked {
		return
	}
	ox := uint64(zzverif.IteU32(x == 0, 1, zzverif.IteU32(x >= f.cols, f.cols, x)))
	oy := uint64(zzverif.IteU32(y == 0, 1, zzverif.IteU32(y >= f.rows, f.rows, y)))
	ex := ox + uint64(w)
	ey := oy + uint64(h)
	ex = zzverif.IteU64(ex > uint64(f.cols)+1, uint64(f.cols)+1, ex)
	ey = zzverif.IteU64(ey > uint64(f.rows)+1, uint64(f.rows)+1, ey)
	for i := 0; i < f.n; i++ {
		pix, cx, cy, _, _, comp := f.classify(i)
		if !pix || cx == 0 || comp >= f.written() {
			zzverif.Assert(f.checkFrame(i), "logo rows, remainder rows/columns, padding bytes and unused pixel bytes are never written")
			continue
		}
		in := zzverif.And(zzverif.And(uint64(cx) >= ox, uint64(cx) < ex), zzverif.And(uint64(cy) >= oy, uint64(cy) < ey))
		want := zzverif.IteU8(in, f.pack(bg, comp), f.old[i])
		zzverif.Assert(f.cons.fb[i] == want, "exactly the cells of the clamped, clipped rectangle are filled with the background colour")
	}
	zzverif.Reach("done")
}

//verif:split 5
func Verif_C19_fb_scroll() {
	f := vfNewFb(2)
	lines := zzverif.U32("lines")
	dir := ScrollDir(zzverif.Choice("dir", 2))
	if lines <= f.rows+1 {
		lines = uint32(zzverif.Split("lines", uint64(lines), 5))
	}
	// KF-C19-1 (fixed): Scroll used to copy whole pitch rows, rewriting padding bytes when pitch > row bytes, and
	// scrolling down also shifted the remainder rows below the grid.
	panicked := zzverif.Catch(func() { f.cons.Scroll(dir, lines) })
	zzverif.Assert(!panicked, "Scroll never touches memory outside the framebuffer")
	if panicked {
		return
	}
	valid := zzverif.And(lines >= 1, lines <= f.rows)
	for i := 0; i < f.n; i++ {
		row := uint32(i) / f.pitch
		cb := uint32(i) % f.pitch
		got := f.cons.fb[i]
		zzverif.Assert(zzverif.Or(valid, got == f.old[i]), "line counts outside 1..grid height are ignored")
		if cb >= f.width*f.bytesPP {
			zzverif.Assert(got == f.old[i], "padding bytes between rows are never touched")
			continue
		}
		if row < f.offY {
			zzverif.Assert(got == f.old[i], "the logo area is left alone")
			continue
		}
		if row >= f.offY+f.rows*f.gh {
			zzverif.Assert(got == f.old[i], "rows below the text grid are left alone")
			continue
		}
		if cb >= f.cols*f.gw*f.bytesPP {
			continue // remainder columns travel with their pixel rows: not specified
		}
		line := (row - f.offY) / f.gh
		for l := uint32(1); l <= f.rows; l++ {
			if dir == ScrollDirUp && line+l < f.rows {
				zzverif.Assert(zzverif.Implies(lines == l, got == f.old[i+int(l*f.gh*f.pitch)]), "scroll up moves the text area up by exactly the line count")
			}
			if dir == ScrollDirDown && line >= l {
				zzverif.Assert(zzverif.Implies(lines == l, got == f.old[i-int(l*f.gh*f.pitch)]), "scroll down moves the text area down by exactly the line count")
			}
		}
	}
	zzverif.Reach("done")
}

// packRGBA: component comp of colour c in the framebuffer's pixel format (independent re-statement, as pack).
func (f *vfFb) packRGBA(c color.RGBA, comp uint32) byte {
	var packed uint32
	packed |= uint32(c.R>>(8-f.ci.RedMaskSize)) << f.ci.RedPosition
	packed |= uint32(c.G>>(8-f.ci.GreenMaskSize)) << f.ci.GreenPosition
	packed |= uint32(c.B>>(8-f.ci.BlueMaskSize)) << f.ci.BluePosition
	if f.bpp <= 16 {
		packed &= 0xffff
	}
	return byte(packed >> (8 * comp))
}

// SetPaletteColor on a direct-colour framebuffer recolours the pixels that show the old colour: every pixel of the
// text area that held the old colour holds the new one, every other pixel, the logo rows and the padding bytes between
// rows are untouched, and nothing outside the framebuffer is accessed. The picture is concrete (a checkerboard of the
// old colour and another one, padding bytes 0xee), the new colour is symbolic.
func Verif_C19_fb_palette() {
	f := vfNewFb(3)
	idx := uint8(1 + 6*zzverif.Choice("index", 2))
	other := uint8(2)
	// with a symbolic mask layout (thorough) two palette colours may pack to the same bytes; the checkerboard needs two
	// colours that differ on the framebuffer
	differ := false
	for comp := uint32(0); comp < f.written(); comp++ {
		differ = zzverif.Or(differ, f.pack(idx, comp) != f.pack(other, comp))
	}
	zzverif.Assume(zzverif.Or(differ, f.bpp == 8))
	for i := 0; i < f.n; i++ {
		pix, _, _, _, _, comp := f.classify(i)
		row := uint32(i) / f.pitch
		px := (uint32(i) % f.pitch) / f.bytesPP
		switch {
		case !pix:
			f.cons.fb[i] = 0xee
		case comp >= f.written():
			f.cons.fb[i] = 0x55
		case (px+row)%2 == 0:
			f.cons.fb[i] = f.pack(idx, comp)
		default:
			f.cons.fb[i] = f.pack(other, comp)
		}
		f.old[i] = f.cons.fb[i]
	}
	nc := color.RGBA{R: zzverif.U8("r"), G: zzverif.U8("g"), B: zzverif.U8("b")}
	panicked := zzverif.Catch(func() { f.cons.SetPaletteColor(idx, nc) })
	zzverif.Assert(!panicked, "SetPaletteColor never touches memory outside the framebuffer")
	if panicked {
		return
	}
	for i := 0; i < f.n; i++ {
		pix, _, _, _, _, comp := f.classify(i)
		row := uint32(i) / f.pitch
		px := (uint32(i) % f.pitch) / f.bytesPP
		if !pix || comp >= f.written() || row < f.offY || f.bpp == 8 {
			zzverif.Assert(f.checkFrame(i), "logo rows, padding bytes and unused pixel bytes are never written (an indexed-colour framebuffer is not rewritten at all)")
			continue
		}
		if (px+row)%2 == 0 {
			zzverif.Assert(f.cons.fb[i] == f.packRGBA(nc, comp), "a pixel that showed the old colour shows the new one")
		} else {
			zzverif.Assert(f.checkFrame(i), "a pixel of another colour is untouched")
		}
	}
	zzverif.Reach("done")
}

// 32 bpp with the colour channels in the upper three bytes (R at bit 24, G at 16, B at 8 - the RGBX layout): a pixel
// is four bytes and the red channel lives in the fourth. Fill one cell and compare all four bytes of each of its
// pixels with the packed colour.
func Verif_C19_fb_pack32() {
	f := vfNewFbDepth(32, &multiboot.FramebufferRGBColorInfo{RedPosition: 24, RedMaskSize: 8, GreenPosition: 16, GreenMaskSize: 8, BluePosition: 8, BlueMaskSize: 8})
	bg := vfColour("bg")
	// KF-C19-5 (fixed): packColor24 yields three bytes and the 24/32 bpp paths used to store three, so a channel at
	// bit 24 or above was never written.
	panicked := zzverif.Catch(func() { f.cons.Fill(1, 1, 1, 1, 0, bg) })
	zzverif.Assert(!panicked, "Fill never touches memory outside the framebuffer")
	if panicked {
		return
	}
	for i := 0; i < f.n; i++ {
		pix, cx, cy, _, _, comp := f.classify(i)
		if !pix || cx != 1 || cy != 1 {
			zzverif.Assert(f.checkFrame(i), "bytes outside the filled cell are untouched")
			continue
		}
		c := f.cons.palette[bg].(color.RGBA)
		packed := uint32(c.R)<<24 | uint32(c.G)<<16 | uint32(c.B)<<8
		zzverif.Assert(f.cons.fb[i] == byte(packed>>(8*comp)), "every byte of a 32 bpp pixel holds its part of the packed colour, including the fourth")
	}
	zzverif.Reach("done")
}
