//go:build verif

//verif:bounds terminal step lemma: geometry (width, height, scrollback, tab width) from {1,2,3}x{1,2}x{0,1}x{0,2,129} (quick) or {1..4}x{1..3}x{0..2}x{0,1,3,128,255} (thorough); every cell of the terminal buffer (character, colours) arbitrary; cursor, viewport position and active/inactive state arbitrary (case split); one operation: WriteByte of an arbitrary byte, Write of two arbitrary bytes, SetCursorPosition with arbitrary 32-bit coordinates, SetState; AttachTo from an arbitrary previous attachment (C17) and on an active or inactive terminal over a console with arbitrary contents (C18); vt_fb_sync (C18): the same step with the real VesaFbConsole at 8 bpp attached - grid {1,2}x{1,2} cells, scrollback {0,1}, tab {0,2} in both tiers, one logo row, one remainder pixel column, 11 padding bytes per row, every framebuffer byte arbitrary subject to Sync, synthetic 8x1 font of 256 glyphs (blank space, the others pairwise distinct); operations WriteByte of an arbitrary byte, SetCursorPosition, SetState
//verif:assumes Inv(VT): 1 <= cursorX <= width, 1 <= cursorY <= height, viewportY <= scrollback, dataOffset consistent with cursor and viewport, rows below the viewport still blank, current colours = default colours (the VT has no colour API); for C18 additionally Sync: an active terminal's console shows exactly the viewport
package tty

import (
	"image/color"

	"github.com/ProjectSerenity/firefly/kernel/device/video/console"
	"github.com/ProjectSerenity/firefly/kernel/device/video/console/font"
	"github.com/ProjectSerenity/firefly/kernel/zzverif"
)

const (
	vfMaxW   = 4
	vfMaxH   = 3
	vfMaxS   = 2
	vfMaxLen = vfMaxW * (vfMaxH + vfMaxS) * 3
)

// vfGrid is a reference character-grid console.
type vfGrid struct {
	w, h  uint32
	cells [vfMaxW * vfMaxH][3]uint8
}

func (g *vfGrid) Dimensions(console.Dimension) (uint32, uint32) { return g.w, g.h }
func (g *vfGrid) DefaultColors() (uint8, uint8)                 { return 7, 0 }
func (g *vfGrid) Palette() color.Palette                        { return nil }
func (g *vfGrid) SetPaletteColor(uint8, color.RGBA)             {}
func (g *vfGrid) Write(ch byte, fg, bg uint8, x, y uint32) {
	if x < 1 || x > g.w || y < 1 || y > g.h {
		return
	}
	g.cells[(y-1)*g.w+(x-1)] = [3]uint8{ch, fg, bg}
}
func (g *vfGrid) Fill(x, y, w, h uint32, fg, bg uint8) {
	for cy := uint32(1); cy <= g.h; cy++ {
		for cx := uint32(1); cx <= g.w; cx++ {
			if uint64(cx) >= uint64(x) && uint64(cx) < uint64(x)+uint64(w) && uint64(cy) >= uint64(y) && uint64(cy) < uint64(y)+uint64(h) {
				g.cells[(cy-1)*g.w+(cx-1)] = [3]uint8{' ', fg, bg}
			}
		}
	}
}
func (g *vfGrid) Scroll(dir console.ScrollDir, lines uint32) {
	if lines == 0 || lines > g.h {
		return
	}
	if dir == console.ScrollDirUp {
		for i := uint32(0); i < (g.h-lines)*g.w; i++ {
			g.cells[i] = g.cells[i+lines*g.w]
		}
	} else {
		for i := g.h*g.w - 1; i >= lines*g.w && i < g.h*g.w; i-- {
			g.cells[i] = g.cells[i-lines*g.w]
		}
	}
}

// vfRef is the reference terminal.
type vfRef struct {
	w, h, s, tab uint32
	data         [vfMaxLen]uint8
	cx, cy, vy   uint32
}

func (r *vfRef) put(ch byte) {
	off := ((r.vy+r.cy-1)*r.w + (r.cx - 1)) * 3
	r.data[off], r.data[off+1], r.data[off+2] = ch, 7, 0
}
func (r *vfRef) lf() {
	r.cx = 1
	if r.cy+1 <= r.h {
		r.cy++
		return
	}
	if r.vy+r.h < r.h+r.s {
		r.vy++
		return
	}
	stride := r.w * 3
	for row := r.vy; row+1 < r.vy+r.h; row++ {
		for k := uint32(0); k < stride; k++ {
			r.data[row*stride+k] = r.data[(row+1)*stride+k]
		}
	}
	last := (r.vy + r.h - 1) * stride
	for k := uint32(0); k < stride; k += 3 {
		r.data[last+k], r.data[last+k+1], r.data[last+k+2] = ' ', 7, 0
	}
}
func (r *vfRef) advance() {
	r.cx++
	if r.cx > r.w {
		r.lf()
	}
}
func (r *vfRef) writeByte(b byte) {
	switch b {
	case '\r':
		r.cx = 1
	case '\n':
		r.lf()
	case '\b':
		if r.cx > 1 {
			r.cx--
			r.put(' ')
		}
	case '\t':
		for i := uint32(0); i < r.tab; i++ {
			r.put(' ')
			r.advance()
		}
	default:
		r.put(b)
		r.advance()
	}
}

type vfVT struct {
	t      *VT
	g      *vfGrid
	ref    vfRef
	n      int
	active bool
	old    [vfMaxW * vfMaxH][3]uint8
}

func vfGeom(quick, thorough []uint32, label string) uint32 {
	set := quick
	if zzverif.Tier() == 1 {
		set = thorough
	}
	return set[zzverif.Choice(label, len(set))]
}

// vfNewVT builds an arbitrary terminal state satisfying Inv(VT) (and Sync when active).
func vfNewVT() *vfVT {
	w := vfGeom([]uint32{1, 2, 3}, []uint32{1, 2, 3, 4}, "width")
	h := vfGeom([]uint32{1, 2}, []uint32{1, 2, 3}, "height")
	s := vfGeom([]uint32{0, 1}, []uint32{0, 1, 2}, "scrollback")
	tab := vfGeom([]uint32{0, 2, 129}, []uint32{0, 1, 3, 128, 255}, "tab")
	v := &vfVT{g: &vfGrid{w: w, h: h}}
	v.n = int(w * (h + s) * 3)
	t := NewVT(uint8(tab), s)
	t.cons = v.g
	t.viewportWidth, t.viewportHeight = w, h
	t.termWidth, t.termHeight = w, h+s
	t.defaultFg, t.defaultBg, t.curFg, t.curBg = 7, 0, 7, 0
	t.data = zzverif.Bytes("cell", v.n)
	t.cursorX = 1 + uint32(zzverif.Choice("cursorX", int(w)))
	t.cursorY = 1 + uint32(zzverif.Choice("cursorY", int(h)))
	t.viewportY = uint32(zzverif.Choice("viewportY", int(s)+1))
	t.updateDataOffset()
	// rows below the viewport have never been written: they are still blank (set by AttachTo, and the
	// viewport only ever moves down)
	for i := int((t.viewportY + h) * w * 3); i+2 < v.n; i += 3 {
		zzverif.Assume(zzverif.And(t.data[i] == ' ', zzverif.And(t.data[i+1] == 7, t.data[i+2] == 0)))
	}
	v.active = zzverif.Choice("active", 2) == 1
	if v.active {
		t.state = StateActive
	}
	v.t = t
	v.ref = vfRef{w: w, h: h, s: s, tab: tab, cx: t.cursorX, cy: t.cursorY, vy: t.viewportY}
	for i := 0; i < v.n; i++ {
		v.ref.data[i] = t.data[i]
	}
	// console content: arbitrary when inactive, equal to the viewport when active (Sync)
	for cy := uint32(0); cy < h; cy++ {
		for cx := uint32(0); cx < w; cx++ {
			i := cy*w + cx
			if v.active {
				off := ((t.viewportY+cy)*w + cx) * 3
				v.g.cells[i] = [3]uint8{t.data[off], t.data[off+1], t.data[off+2]}
			} else {
				v.g.cells[i] = [3]uint8{zzverif.U8("cons"), zzverif.U8("cons"), zzverif.U8("cons")}
			}
			v.old[i] = v.g.cells[i]
		}
	}
	return v
}

// check compares the real terminal with the reference (C17) and the console with the viewport (C18).
func (v *vfVT) check(sync bool) {
	t := v.t
	zzverif.Reach("stepped")
	zzverif.Assert(zzverif.And(t.cursorX == v.ref.cx, t.cursorY == v.ref.cy), "cursor equals the reference terminal's cursor")
	zzverif.Assert(t.viewportY == v.ref.vy, "viewport position equals the reference")
	zzverif.Assert(zzverif.And(zzverif.And(t.cursorX >= 1, t.cursorX <= v.ref.w), zzverif.And(t.cursorY >= 1, t.cursorY <= v.ref.h)), "cursor stays inside the viewport")
	zzverif.Assert(t.viewportY <= v.ref.s, "viewport stays inside the scrollback")
	zzverif.Assert(uint32(t.dataOffset) == ((t.viewportY+t.cursorY-1)*v.ref.w+(t.cursorX-1))*3, "data offset consistent with cursor and viewport")
	zzverif.Assert(len(t.data) == v.n, "buffer size unchanged")
	for i := 0; i < v.n; i++ {
		zzverif.Assert(t.data[i] == v.ref.data[i], "terminal contents and scrollback equal the reference terminal")
	}
	if !sync {
		return
	}
	for cy := uint32(0); cy < v.ref.h; cy++ {
		for cx := uint32(0); cx < v.ref.w; cx++ {
			i := cy*v.ref.w + cx
			if t.state == StateActive {
				off := ((t.viewportY+cy)*v.ref.w + cx) * 3
				zzverif.Assert(zzverif.And(v.g.cells[i][0] == t.data[off], zzverif.And(v.g.cells[i][1] == t.data[off+1], v.g.cells[i][2] == t.data[off+2])), "active terminal: the console shows exactly the viewport")
			} else {
				zzverif.Assert(v.g.cells[i] == v.old[i], "inactive terminal: the console is not touched")
			}
		}
	}
}

func vfVTStep(sync bool) {
	v := vfNewVT()
	switch zzverif.Choice("op", 4) {
	case 0:
		b := zzverif.U8("byte")
		panicked := zzverif.Catch(func() { v.t.WriteByte(b) })
		zzverif.Assert(!panicked, "no write ever touches memory outside the terminal's buffer")
		if panicked {
			return
		}
		v.ref.writeByte(b)
	case 1:
		p := zzverif.Bytes("bytes", 2)
		var n int
		panicked := zzverif.Catch(func() { n, _ = v.t.Write(p) })
		zzverif.Assert(!panicked, "no write ever touches memory outside the terminal's buffer")
		if panicked {
			return
		}
		zzverif.Assert(n == 2, "Write reports all bytes written")
		v.ref.writeByte(p[0])
		v.ref.writeByte(p[1])
	case 2:
		x, y := zzverif.U32("x"), zzverif.U32("y")
		v.t.SetCursorPosition(x, y)
		v.ref.cx = zzverif.IteU32(x < 1, 1, zzverif.IteU32(x > v.ref.w, v.ref.w, x))
		v.ref.cy = zzverif.IteU32(y < 1, 1, zzverif.IteU32(y > v.ref.h, v.ref.h, y))
	case 3:
		ns := State(zzverif.Choice("state", 2))
		v.t.SetState(ns)
		zzverif.Assert(v.t.State() == ns, "state recorded")
		if ns == StateActive && !v.active {
			zzverif.Reach("activated")
		}
	}
	v.check(sync)
}

//verif:split 6
func Verif_C17_vt_step() { vfVTStep(false) }

// AttachTo: buffer sized width*(height+scrollback) cells, all blank in the default colours, cursor at (1,1).
func Verif_C17_attach() {
	w := vfGeom([]uint32{1, 2, 3}, []uint32{1, 2, 3, 4}, "width")
	h := vfGeom([]uint32{1, 2}, []uint32{1, 2, 3}, "height")
	s := vfGeom([]uint32{0, 1}, []uint32{0, 1, 2}, "scrollback")
	t := NewVT(2, s)
	// the terminal may have been attached to another console before: every field AttachTo does not document as
	// preserved is arbitrary (a fresh NewVT is the special case of all zeros)
	t.cursorX, t.cursorY, t.viewportY = zzverif.U32("oldCursorX"), zzverif.U32("oldCursorY"), zzverif.U32("oldViewportY")
	t.dataOffset = uint(zzverif.U64("oldDataOffset"))
	t.AttachTo(&vfGrid{w: w, h: h})
	zzverif.Assert(t.dataOffset == 0, "after attaching, the next byte is stored at the cursor cell (1,1), whatever the terminal did before")
	zzverif.Assert(len(t.data) == int(w*(h+s)*3), "buffer holds width*(height+scrollback) cells")
	for i := 0; i+2 < len(t.data); i += 3 {
		zzverif.Assert(zzverif.And(t.data[i] == ' ', zzverif.And(t.data[i+1] == 7, t.data[i+2] == 0)), "attached terminal is blank in the default colours")
	}
	x, y := t.CursorPosition()
	zzverif.Assert(zzverif.And(x == 1, y == 1), "cursor starts at (1,1)")
	zzverif.Assert(t.viewportY == 0, "viewport starts at the top")
	zzverif.Reach("attached")
}

//verif:split 6
func Verif_C18_vt_grid_sync() { vfVTStep(true) }

// The init lemma of the sync invariant: a terminal that is already active when it is attached (the order the
// repository's own tests use: SetState(StateActive), then AttachTo) shows its viewport on the console it is attached
// to, whatever the console displayed before; an inactive terminal leaves the console alone.
func Verif_C18_attach_sync() {
	w := vfGeom([]uint32{1, 2, 3}, []uint32{1, 2, 3, 4}, "width")
	h := vfGeom([]uint32{1, 2}, []uint32{1, 2, 3}, "height")
	s := vfGeom([]uint32{0, 1}, []uint32{0, 1, 2}, "scrollback")
	g := &vfGrid{w: w, h: h}
	var before [vfMaxW * vfMaxH][3]uint8
	for i := 0; i < int(w*h); i++ {
		g.cells[i] = [3]uint8{zzverif.U8("cons"), zzverif.U8("cons"), zzverif.U8("cons")}
		before[i] = g.cells[i]
	}
	t := NewVT(2, s)
	active := zzverif.Choice("active", 2) == 1
	if active {
		t.SetState(StateActive)
	}
	// KF-C18-1: AttachTo never paints; SetState only paints on a state *change* with a console attached, so a terminal
	// activated before it is attached leaves the console's previous contents on screen.
	zzverif.Known("KF-C18-1", active)
	t.AttachTo(g)
	if zzverif.Choice("then-write", 2) == 1 {
		t.WriteByte(zzverif.U8("byte"))
	}
	zzverif.Reach("attached")
	for cy := uint32(0); cy < h; cy++ {
		for cx := uint32(0); cx < w; cx++ {
			i := cy*w + cx
			if t.state == StateActive {
				off := ((t.viewportY+cy)*w + cx) * 3
				zzverif.Assert(zzverif.And(g.cells[i][0] == t.data[off], zzverif.And(g.cells[i][1] == t.data[off+1], g.cells[i][2] == t.data[off+2])), "active terminal: the console shows exactly the viewport after attaching")
			} else {
				zzverif.Assert(g.cells[i] == before[i], "inactive terminal: the console is not touched")
			}
		}
	}
}

// ---------- C18 with the shipped text-mode console ----------

// vfVTVgaStep: the same step lemma with the real VgaTextConsole as the attached console.
// Cell colours are the defaults (the VT never writes anything else), so a cell word is 0x0700|char.
//
//verif:split 6
func Verif_C18_vt_vga_sync() {
	w := vfGeom([]uint32{1, 2, 3}, []uint32{1, 2, 3, 4}, "width")
	h := vfGeom([]uint32{1, 2}, []uint32{1, 2, 3}, "height")
	s := vfGeom([]uint32{0, 1}, []uint32{0, 1, 2}, "scrollback")
	tab := vfGeom([]uint32{0, 2, 129}, []uint32{0, 1, 3, 128, 255}, "tab")
	cons := console.NewVgaTextConsole(w, h, 0)
	fb := make([]uint16, w*h)
	console.VerifVgaSetFb(cons, fb)
	n := int(w * (h + s) * 3)
	t := NewVT(uint8(tab), s)
	t.cons = cons
	t.viewportWidth, t.viewportHeight = w, h
	t.termWidth, t.termHeight = w, h+s
	t.defaultFg, t.defaultBg = cons.DefaultColors()
	t.curFg, t.curBg = t.defaultFg, t.defaultBg
	t.data = zzverif.Bytes("cell", n)
	for i := 0; i+2 < n; i += 3 {
		zzverif.Assume(zzverif.And(t.data[i+1] == 7, t.data[i+2] == 0)) // only default colours are ever stored
	}
	t.cursorX = 1 + uint32(zzverif.Choice("cursorX", int(w)))
	t.cursorY = 1 + uint32(zzverif.Choice("cursorY", int(h)))
	t.viewportY = uint32(zzverif.Choice("viewportY", int(s)+1))
	t.updateDataOffset()
	for i := int((t.viewportY + h) * w * 3); i+2 < n; i += 3 {
		zzverif.Assume(t.data[i] == ' ')
	}
	active := zzverif.Choice("active", 2) == 1
	var old [vfMaxW * vfMaxH]uint16
	for cy := uint32(0); cy < h; cy++ {
		for cx := uint32(0); cx < w; cx++ {
			i := cy*w + cx
			if active {
				fb[i] = 0x0700 | uint16(t.data[((t.viewportY+cy)*w+cx)*3])
			} else {
				fb[i] = zzverif.U16("cons")
			}
			old[i] = fb[i]
		}
	}
	if active {
		t.state = StateActive
	}
	switch zzverif.Choice("op", 3) {
	case 0:
		b := zzverif.U8("byte")
		panicked := zzverif.Catch(func() { t.WriteByte(b) })
		zzverif.Assert(!panicked, "no write crashes the terminal or the console")
		if panicked {
			return
		}
	case 1:
		x, y := zzverif.U32("x"), zzverif.U32("y")
		t.SetCursorPosition(x, y)
	case 2:
		t.SetState(State(zzverif.Choice("state", 2)))
	}
	zzverif.Reach("stepped")
	now := console.VerifVgaFb(cons)
	zzverif.Assert(len(now) == int(w*h), "console buffer size unchanged")
	for cy := uint32(0); cy < h; cy++ {
		for cx := uint32(0); cx < w; cx++ {
			i := cy*w + cx
			if t.state == StateActive {
				zzverif.Assert(now[i] == 0x0700|uint16(t.data[((t.viewportY+cy)*w+cx)*3]), "active terminal: the text-mode console shows exactly the viewport (character in the default colours)")
			} else {
				zzverif.Assert(now[i] == old[i], "inactive terminal: the console is not touched")
			}
		}
	}
}

// ---------- C18 with the shipped framebuffer console (8 bpp) ----------

// vfFbFont: an 8x1 font of 256 glyphs, one byte per glyph. Glyph ' ' is blank (as in every real font: a cleared cell
// and a written space look the same); the other rows are distinct, so the pixels of a cell identify its character.
func vfFbFont() *font.Font {
	data := make([]byte, 256)
	for i := 0; i < 256; i++ {
		data[i] = byte(i) ^ 0xa5
	}
	data[' '] = 0
	return &font.Font{Name: "verif", GlyphWidth: 8, GlyphHeight: 1, BytesPerRow: 1, Data: data}
}

// Verif_C18_vt_fb_sync: the step lemma with the real VesaFbConsole (8 bpp, one logo row, one remainder pixel column,
// 11 padding bytes per row) as the attached console. "Shows the viewport" = every pixel of every cell is the
// default foreground colour where the glyph of the viewport's character has its bit set and the default background
// colour elsewhere; everything outside the character grid (logo row, remainder, padding) is never touched.
//
//verif:split 6
func Verif_C18_vt_fb_sync() {
	// (both tiers use the same geometries: a run with grids up to 3x3 did not finish inside the session that added this
	// harness, and only bounds that ran clean on the unchanged tree are registered)
	w := vfGeom([]uint32{1, 2}, []uint32{1, 2}, "width")
	h := vfGeom([]uint32{1, 2}, []uint32{1, 2}, "height")
	s := vfGeom([]uint32{0, 1}, []uint32{0, 1}, "scrollback")
	tab := vfGeom([]uint32{0, 2}, []uint32{0, 2}, "tab")
	const gw, offY, pad = 8, 1, 11
	width, height := w*gw+1, offY+h // (glyphs are one pixel high, so there is no remainder row)
	pitch := width + pad
	nfb := int(height * pitch)
	fnt := vfFbFont()
	fb := zzverif.Bytes("fb", nfb)
	cons := console.VerifNewFb8(width, height, pitch, offY, fnt, fb)
	cw, chh := cons.Dimensions(console.Characters)
	zzverif.Assert(zzverif.And(cw == w, chh == h), "character grid = whole glyphs that fit beside the logo")
	n := int(w * (h + s) * 3)
	t := NewVT(uint8(tab), s)
	t.cons = cons
	t.viewportWidth, t.viewportHeight = w, h
	t.termWidth, t.termHeight = w, h+s
	t.defaultFg, t.defaultBg = cons.DefaultColors()
	t.curFg, t.curBg = t.defaultFg, t.defaultBg
	t.data = zzverif.Bytes("cell", n)
	for i := 0; i+2 < n; i += 3 {
		zzverif.Assume(zzverif.And(t.data[i+1] == 7, t.data[i+2] == 0)) // only default colours are ever stored
	}
	t.cursorX = 1 + uint32(zzverif.Choice("cursorX", int(w)))
	t.cursorY = 1 + uint32(zzverif.Choice("cursorY", int(h)))
	t.viewportY = uint32(zzverif.Choice("viewportY", int(s)+1))
	t.updateDataOffset()
	for i := int((t.viewportY + h) * w * 3); i+2 < n; i += 3 {
		zzverif.Assume(t.data[i] == ' ')
	}
	active := zzverif.Choice("active", 2) == 1
	// pixel (px, row) of the frame buffer belongs to cell (px/gw, row-offY) when inside the grid
	inGrid := func(i int) (bool, uint32, uint32, uint32) {
		row, cb := uint32(i)/pitch, uint32(i)%pitch
		if row < offY || row >= offY+h || cb >= w*gw {
			return false, 0, 0, 0
		}
		return true, cb / gw, row - offY, cb % gw
	}
	old := make([]byte, nfb)
	for i := 0; i < nfb; i++ {
		if ok, cx, cy, rx := inGrid(i); ok && active {
			ch := t.data[((t.viewportY+cy)*w+cx)*3]
			zzverif.Assume(fb[i] == zzverif.IteU8(fnt.Data[ch]&(0x80>>rx) != 0, 7, 0)) // Sync
		}
		old[i] = fb[i]
	}
	if active {
		t.state = StateActive
	}
	switch zzverif.Choice("op", 3) {
	case 0:
		b := zzverif.U8("byte")
		panicked := zzverif.Catch(func() { t.WriteByte(b) })
		zzverif.Assert(!panicked, "no write crashes the terminal or the console")
		if panicked {
			return
		}
	case 1:
		x, y := zzverif.U32("x"), zzverif.U32("y")
		t.SetCursorPosition(x, y)
	case 2:
		t.SetState(State(zzverif.Choice("state", 2)))
	}
	zzverif.Reach("stepped")
	now := console.VerifFb(cons)
	zzverif.Assert(len(now) == nfb, "frame buffer size unchanged")
	for i := 0; i < nfb; i++ {
		ok, cx, cy, rx := inGrid(i)
		if !ok {
			if row, cb := uint32(i)/pitch, uint32(i)%pitch; row >= offY && cb >= w*gw && cb < width {
				continue // the remainder pixel column travels with its pixel rows when the console scrolls: not specified (as in C19 fb_scroll)
			}
			zzverif.Assert(now[i] == old[i], "logo row and padding are never touched by the terminal")
			continue
		}
		if t.state == StateActive {
			ch := t.data[((t.viewportY+cy)*w+cx)*3]
			zzverif.Assert(now[i] == zzverif.IteU8(fnt.Data[ch]&(0x80>>rx) != 0, 7, 0), "active terminal: the framebuffer console shows exactly the viewport (glyph of each character in the default colours)")
		} else {
			zzverif.Assert(now[i] == old[i], "inactive terminal: the console is not touched")
		}
	}
}
