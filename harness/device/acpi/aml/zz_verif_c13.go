//go:build verif

//verif:bounds tree step lemma: pool of K objects (quick 4, thorough 5) with every link field, live/freed flag and the free-list head symbolic, one operation (newObject / append / appendAfter / detach / free) with symbolic operands; lookups: fixed tree shapes, lookup expression of up to 9 symbolic bytes from a symbolic start scope; find_scope_block: the shape the parser builds for a scoped object (Device -> unnamed scope block -> member) with three symbolic names, absolute / relative / dual-prefixed two-segment paths, parent-prefixed and single-segment lookups from the block
//verif:assumes WF(tree) for the pre-state (links in range and live, parent/sibling links agree with the parent's child list in both directions, parent and sibling chains end within K steps, free list threads exactly the freed objects) and the documented operand preconditions (arguments live; an appended object is detached and not an ancestor of its new parent)
package aml

import "github.com/ProjectSerenity/firefly/kernel/zzverif"

const vfK = 6 // array capacity (pool size K plus one object newObject may add)

type vfTree struct {
	n                                      int
	live                                   [vfK]bool
	parent, prev, next, first, last, index [vfK]uint32
	head                                   uint32
}

const vfInv = InvalidIndex

func vfInRange(s *vfTree, x uint32) bool { return x < uint32(s.n) }

// vfGetB / vfGet: symbolic-index reads of the small state arrays (out-of-range index reads slot 0: callers guard with vfInRange)
func vfGet(a *[vfK]uint32, n int, i uint32) uint32 {
	r := a[0]
	for k := 1; k < n; k++ {
		r = zzverif.IteU32(i == uint32(k), a[k], r)
	}
	return r
}
func vfGetB(a *[vfK]bool, n int, i uint32) bool {
	r := a[0]
	for k := 1; k < n; k++ {
		r = zzverif.IteBool(i == uint32(k), a[k], r)
	}
	return r
}

// vfLiveRef: x is InvalidIndex or designates a live object.
func vfLiveRef(s *vfTree, x uint32) bool {
	return zzverif.Or(x == vfInv, zzverif.And(vfInRange(s, x), vfGetB(&s.live, s.n, x)))
}

// vfWF is the well-formedness predicate (quantifier free, bounded walks).
func vfWF(s *vfTree) bool {
	n := s.n
	ok := true
	and := func(c bool) { ok = zzverif.And(ok, c) }
	imp := zzverif.Implies
	nfreed := uint32(0)
	for i := 0; i < n; i++ {
		ui := uint32(i)
		l := s.live[i]
		p, pv, nx, f, la := s.parent[i], s.prev[i], s.next[i], s.first[i], s.last[i]
		and(s.index[i] == ui)
		and(imp(l, vfLiveRef(s, p)))
		and(imp(l, vfLiveRef(s, pv)))
		and(imp(l, vfLiveRef(s, nx)))
		and(imp(l, vfLiveRef(s, f)))
		and(imp(l, vfLiveRef(s, la)))
		and(imp(zzverif.And(l, pv != vfInv), zzverif.And(vfGet(&s.next, n, pv) == ui, vfGet(&s.parent, n, pv) == p)))
		and(imp(zzverif.And(l, nx != vfInv), zzverif.And(vfGet(&s.prev, n, nx) == ui, vfGet(&s.parent, n, nx) == p)))
		and(imp(zzverif.And(l, p != vfInv), zzverif.And((pv == vfInv) == (vfGet(&s.first, n, p) == ui), (nx == vfInv) == (vfGet(&s.last, n, p) == ui))))
		and(imp(zzverif.And(l, p == vfInv), zzverif.And(pv == vfInv, nx == vfInv)))
		and(imp(l, (f == vfInv) == (la == vfInv)))
		and(imp(zzverif.And(l, f != vfInv), zzverif.And(vfGet(&s.parent, n, f) == ui, vfGet(&s.prev, n, f) == vfInv)))
		and(imp(zzverif.And(l, la != vfInv), zzverif.And(vfGet(&s.parent, n, la) == ui, vfGet(&s.next, n, la) == vfInv)))
		// parent chain and sibling chain end within n steps
		c, d := p, nx
		for k := 0; k < n; k++ {
			c = zzverif.IteU32(c == vfInv, vfInv, vfGet(&s.parent, n, c))
			d = zzverif.IteU32(d == vfInv, vfInv, vfGet(&s.next, n, d))
		}
		and(imp(l, zzverif.And(c == vfInv, d == vfInv)))
		// freed objects: next is the free-list link
		and(imp(!l, zzverif.Or(nx == vfInv, zzverif.And(vfInRange(s, nx), !vfGetB(&s.live, n, nx)))))
		nfreed += uint32(zzverif.IteU32(l, 0, 1))
	}
	// object 0 is the live root (when the pool is not empty)
	and(zzverif.And(s.live[0], s.parent[0] == vfInv))
	// the free list threads exactly the freed objects: it ends within n steps and has nfreed elements
	and(zzverif.Or(s.head == vfInv, zzverif.And(vfInRange(s, s.head), !vfGetB(&s.live, n, s.head))))
	c := s.head
	cnt := uint32(0)
	for k := 0; k < n; k++ {
		cnt += zzverif.IteU32(c == vfInv, 0, 1)
		c = zzverif.IteU32(c == vfInv, vfInv, vfGet(&s.next, n, c))
	}
	and(zzverif.And(c == vfInv, cnt == nfreed))
	return ok
}

// vfBuild creates a pool of k objects through the real newObject and overwrites every link with symbolic values.
func vfBuild(k int) (*ObjectTree, *vfTree) {
	tree := NewObjectTree()
	s := &vfTree{n: k}
	for i := 0; i < k; i++ {
		tree.newObject(pOpDevice, 0)
	}
	for i := 0; i < k; i++ {
		o := tree.objPool[i]
		s.live[i] = zzverif.Bool("live")
		s.parent[i], s.prev[i], s.next[i] = zzverif.U32("parent"), zzverif.U32("prev"), zzverif.U32("next")
		s.first[i], s.last[i] = zzverif.U32("first"), zzverif.U32("last")
		s.index[i] = uint32(i)
		if !s.live[i] {
			o.opcode = pOpIntFreedObject
		}
		o.parentIndex, o.prevSiblingIndex, o.nextSiblingIndex = s.parent[i], s.prev[i], s.next[i]
		o.firstArgIndex, o.lastArgIndex = s.first[i], s.last[i]
	}
	s.head = zzverif.U32("freehead")
	tree.freeListHeadIndex = s.head
	zzverif.Assume(vfWF(s))
	return tree, s
}

// vfRead copies the real tree's state out (concrete indices only).
func vfRead(tree *ObjectTree) *vfTree {
	s := &vfTree{n: len(tree.objPool)}
	for i := 0; i < s.n; i++ {
		o := tree.objPool[i]
		s.live[i] = o.opcode != pOpIntFreedObject
		s.parent[i], s.prev[i], s.next[i] = o.parentIndex, o.prevSiblingIndex, o.nextSiblingIndex
		s.first[i], s.last[i], s.index[i] = o.firstArgIndex, o.lastArgIndex, o.index
	}
	s.head = tree.freeListHeadIndex
	return s
}

// vfSet writes a[i] = v for a symbolic i.
func vfSet(a *[vfK]uint32, n int, i uint32, v uint32) {
	for k := 0; k < n; k++ {
		a[k] = zzverif.IteU32(i == uint32(k), v, a[k])
	}
}

func vfSame(a, b *vfTree) bool {
	ok := a.head == b.head
	for i := 0; i < a.n; i++ {
		ok = zzverif.And(ok, a.live[i] == b.live[i])
		same := zzverif.And(zzverif.And(a.parent[i] == b.parent[i], a.prev[i] == b.prev[i]),
			zzverif.And(zzverif.And(a.next[i] == b.next[i], a.first[i] == b.first[i]), a.last[i] == b.last[i]))
		// link fields of freed objects other than the free-list link are don't-cares
		ok = zzverif.And(ok, zzverif.Or(same, zzverif.And(!a.live[i], a.next[i] == b.next[i])))
	}
	return ok
}

// vfRefDetach is the reference model of detach(parent(arg), arg) on the abstract state.
func vfRefDetach(e *vfTree, arg uint32) {
	n := e.n
	p := vfGet(&e.parent, n, arg)
	pv, nx := vfGet(&e.prev, n, arg), vfGet(&e.next, n, arg)
	if zzverif.Split("has-parent", uint64(zzverif.IteU32(p != vfInv, 1, 0)), 2) == 0 {
		return
	}
	vfSet(&e.first, n, p, zzverif.IteU32(vfGet(&e.first, n, p) == arg, nx, vfGet(&e.first, n, p)))
	vfSet(&e.last, n, p, zzverif.IteU32(vfGet(&e.last, n, p) == arg, pv, vfGet(&e.last, n, p)))
	for k := 0; k < n; k++ {
		uk := uint32(k)
		e.prev[k] = zzverif.IteU32(zzverif.And(nx != vfInv, nx == uk), pv, e.prev[k])
		e.next[k] = zzverif.IteU32(zzverif.And(pv != vfInv, pv == uk), nx, e.next[k])
	}
	vfSet(&e.prev, n, arg, vfInv)
	vfSet(&e.next, n, arg, vfInv)
	vfSet(&e.parent, n, arg, vfInv)
}

// vfRefAppend: reference model of appending the detached object arg as the last child of obj.
func vfRefAppend(e *vfTree, obj, arg uint32) {
	n := e.n
	ol := vfGet(&e.last, n, obj)
	vfSet(&e.parent, n, arg, obj)
	vfSet(&e.prev, n, arg, ol)
	vfSet(&e.next, n, arg, vfInv)
	for k := 0; k < n; k++ {
		e.next[k] = zzverif.IteU32(zzverif.And(ol != vfInv, ol == uint32(k)), arg, e.next[k])
	}
	vfSet(&e.first, n, obj, zzverif.IteU32(ol == vfInv, arg, vfGet(&e.first, n, obj)))
	vfSet(&e.last, n, obj, arg)
}

// isAncestor: a is obj or one of its ancestors.
func vfIsAncestorOrSelf(s *vfTree, a, obj uint32) bool {
	r := a == obj
	c := obj
	for k := 0; k < s.n; k++ {
		c = zzverif.IteU32(c == vfInv, vfInv, vfGet(&s.parent, s.n, c))
		r = zzverif.Or(r, zzverif.And(c != vfInv, c == a))
	}
	return r
}

func vfPick(s *vfTree, label string) uint32 {
	i := zzverif.U32(label)
	zzverif.Assume(zzverif.And(vfInRange(s, i), vfGetB(&s.live, s.n, i)))
	return uint32(zzverif.Split(label, uint64(i), vfK))
}

func vfEditStep(op int) {
	k := zzverif.Param("objects", 4, 5)
	tree, s := vfBuild(k)
	e := *s // expected post-state
	switch op {
	case 0: // newObject: reuses the free-list head before growing the pool
		// whatever occupied a slot before it was freed had a name: freed slots carry arbitrary name bytes
		for i := 0; i < k; i++ {
			o := tree.objPool[i]
			if o.opcode == pOpIntFreedObject {
				o.name = [amlNameLen]byte{zzverif.U8("oldname"), zzverif.U8("oldname"), zzverif.U8("oldname"), zzverif.U8("oldname")}
			}
		}
		obj := tree.newObject(pOpDevice, 0)
		zzverif.Assert(obj.name == [amlNameLen]byte{}, "a new object carries no name: it is not found under the name of the freed object whose slot it reuses")
		if s.head != vfInv {
			zzverif.Reach("reused")
			zzverif.Assert(obj.index == s.head, "freed slots are reused before the pool grows")
			zzverif.Assert(len(tree.objPool) == k, "pool does not grow while the free list is not empty")
			e.head = vfGet(&s.next, k, s.head)
			for i := 0; i < k; i++ {
				here := s.head == uint32(i)
				e.live[i] = zzverif.Or(e.live[i], here)
				e.parent[i] = zzverif.IteU32(here, vfInv, e.parent[i])
				e.prev[i] = zzverif.IteU32(here, vfInv, e.prev[i])
				e.next[i] = zzverif.IteU32(here, vfInv, e.next[i])
				e.first[i] = zzverif.IteU32(here, vfInv, e.first[i])
				e.last[i] = zzverif.IteU32(here, vfInv, e.last[i])
			}
		} else {
			zzverif.Reach("grown")
			zzverif.Assert(len(tree.objPool) == k+1, "pool grows by one when no freed slot exists")
			zzverif.Assert(obj.index == uint32(k), "new object gets the next index")
			e.n = k + 1
			e.live[k] = true
			e.index[k] = uint32(k)
			e.parent[k], e.prev[k], e.next[k], e.first[k], e.last[k] = vfInv, vfInv, vfInv, vfInv, vfInv
		}
	case 1: // append(obj, arg): arg live, detached, not an ancestor of obj
		obj, arg := vfPick(s, "obj"), vfPick(s, "arg")
		zzverif.Assume(arg != 0) // object 0 is the root and stays the root
		zzverif.Assume(s.parent[arg] == vfInv)
		zzverif.Assume(zzverif.Not(vfIsAncestorOrSelf(s, arg, obj)))
		tree.append(tree.ObjectAt(obj), tree.ObjectAt(arg))
		vfRefAppend(&e, obj, arg)
	case 2: // appendAfter(obj, arg, nextTo): nextTo is a child of obj
		obj, arg, nt := vfPick(s, "obj"), vfPick(s, "arg"), vfPick(s, "nextTo")
		zzverif.Assume(arg != 0)
		zzverif.Assume(s.parent[arg] == vfInv)
		zzverif.Assume(zzverif.Not(vfIsAncestorOrSelf(s, arg, obj)))
		zzverif.Assume(s.parent[nt] == obj)
		tree.appendAfter(tree.ObjectAt(obj), tree.ObjectAt(arg), tree.ObjectAt(nt))
		nn := s.next[nt]
		if nn == vfInv {
			vfRefAppend(&e, obj, arg)
		} else {
			e.parent[arg], e.prev[arg], e.next[arg] = obj, nt, nn
			e.next[nt] = arg
			vfSet(&e.prev, k, nn, arg)
		}
	case 3: // detach(parent, arg)
		arg := vfPick(s, "arg")
		zzverif.Assume(s.parent[arg] != vfInv)
		tree.detach(tree.ObjectAt(s.parent[arg]), tree.ObjectAt(arg))
		vfRefDetach(&e, arg)
	case 4: // free(obj): childless objects only; panics otherwise
		obj := vfPick(s, "obj")
		zzverif.Assume(obj != 0) // the root is never freed
		hasKids := zzverif.Or(s.first[obj] != vfInv, s.last[obj] != vfInv)
		panicked := zzverif.Catch(func() { tree.free(tree.ObjectAt(obj)) })
		if hasKids {
			zzverif.Reach("free-with-children")
			zzverif.Assert(panicked, "freeing an object that still has children is refused")
			return
		}
		zzverif.Assert(!panicked, "freeing a childless object succeeds")
		vfRefDetach(&e, obj)
		e.live[obj] = false
		e.next[obj] = s.head
		e.head = obj
	}
	got := vfRead(tree)
	zzverif.Reach("applied")
	zzverif.Assert(got.n == e.n, "pool size as expected")
	if got.n != e.n {
		return
	}
	zzverif.Assert(vfSame(got, &e), "the operation changes exactly the links the list model says, nothing else")
	zzverif.Assert(vfWF(got), "the tree is well-formed again: links agree in both directions, no freed object reachable, free list exact")
}

//verif:split 4
func Verif_C13_edit_new() { vfEditStep(0) }

//verif:split 4
func Verif_C13_edit_append() { vfEditStep(1) }

//verif:split 4
func Verif_C13_edit_append_after() { vfEditStep(2) }

//verif:split 4
func Verif_C13_edit_detach() { vfEditStep(3) }

//verif:split 4
func Verif_C13_edit_free() { vfEditStep(4) }

// ---------- lookups ----------

type vfNode struct {
	name   string
	parent int
}

// A fixed shape: two objects named FOO_ at different depths (search order), a three-deep chain, a sibling at the root.
var vfShape = []vfNode{
	{"\\", -1},  // 0
	{"_SB_", 0}, // 1
	{"DEV0", 1}, // 2
	{"DEV1", 2}, // 3
	{"FOO_", 3}, // 4
	{"FOO_", 1}, // 5
	{"BAR_", 0}, // 6
	{"DEV0", 0}, // 7 (same name as 2, at the root)
}

func vfBuildShape() *ObjectTree {
	tree := NewObjectTree()
	for i, nd := range vfShape {
		var name [amlNameLen]byte
		copy(name[:], nd.name)
		o := tree.newNamedObject(pOpDevice, 0, name)
		if nd.parent >= 0 {
			tree.append(tree.ObjectAt(uint32(nd.parent)), o)
		}
		_ = i
	}
	return tree
}

func vfSeg(label string) [4]byte {
	var s [4]byte
	for i := 0; i < 4; i++ {
		c := zzverif.U8(label)
		lead := zzverif.Or(c == '_', zzverif.And(c >= 'A', c <= 'Z'))
		if i == 0 {
			zzverif.Assume(lead)
		} else {
			zzverif.Assume(zzverif.Or(lead, zzverif.And(c >= '0', c <= '9')))
		}
		s[i] = c
	}
	return s
}

func vfNameIs(k int, seg [4]byte) bool {
	nm := vfShape[k].name
	r := true
	for i := 0; i < 4; i++ {
		var c byte
		if i < len(nm) {
			c = nm[i]
		}
		r = zzverif.And(r, seg[i] == c)
	}
	return r
}

// vfDown: first child (in sibling order) of concrete node s named seg, else InvalidIndex.
func vfDown(s int, seg [4]byte) uint32 {
	r := vfInv
	for k := len(vfShape) - 1; k >= 1; k-- {
		if vfShape[k].parent == s {
			r = zzverif.IteU32(vfNameIs(k, seg), uint32(k), r)
		}
	}
	return r
}

// vfDownSym: as vfDown for a symbolic scope index (InvalidIndex stays InvalidIndex).
func vfDownSym(s uint32, seg [4]byte) uint32 {
	r := vfInv
	for n := 0; n < len(vfShape); n++ {
		r = zzverif.IteU32(s == uint32(n), vfDown(n, seg), r)
	}
	return r
}

func vfUp(s int, levels int) int {
	for ; levels > 0 && s >= 0; levels-- {
		s = vfShape[s].parent
	}
	return s
}

// Well-formed lookup expressions resolve exactly as ACPI's search rules say.
//
//verif:split 3
func Verif_C13_find_wellformed() {
	tree := vfBuildShape()
	scope := zzverif.Choice("scope", len(vfShape))
	form := zzverif.Choice("form", 8)
	var expr [16]byte
	n := 0
	put := func(b ...byte) {
		for _, c := range b {
			expr[n] = c
			n++
		}
	}
	var want uint32
	switch form {
	case 0: // root
		put('\\')
		want = 0
	case 1: // \SEG
		a := vfSeg("a")
		put('\\')
		put(a[:]...)
		want = vfDown(0, a)
	case 2: // \ dual SEG SEG
		a, b := vfSeg("a"), vfSeg("b")
		put('\\', 0x2e)
		put(a[:]...)
		put(b[:]...)
		want = vfDownSym(vfDown(0, a), b)
	case 3: // ^..^ (1..3 carets) alone
		c := 1 + zzverif.Choice("carets", 3)
		for i := 0; i < c; i++ {
			put('^')
		}
		up := vfUp(scope, c)
		want = vfInv
		if up >= 0 {
			want = uint32(up)
		}
	case 4: // ^..^ SEG: one level up per caret, then downward only
		c := 1 + zzverif.Choice("carets", 2)
		a := vfSeg("a")
		for i := 0; i < c; i++ {
			put('^')
		}
		put(a[:]...)
		up := vfUp(scope, c)
		want = vfInv
		if up >= 0 {
			want = vfDown(up, a)
		}
	case 5: // single segment: this scope, then each enclosing scope
		a := vfSeg("a")
		put(a[:]...)
		want = vfInv
		// innermost match wins: build from the outermost scope inwards
		var chain [8]int
		depth := 0
		for s := scope; s >= 0; s = vfShape[s].parent {
			chain[depth] = s
			depth++
		}
		for d := depth - 1; d >= 0; d-- {
			here := vfDown(chain[d], a)
			want = zzverif.IteU32(here != vfInv, here, want)
		}
	case 6: // dual-name path: downward only from the scope
		a, b := vfSeg("a"), vfSeg("b")
		put(0x2e)
		put(a[:]...)
		put(b[:]...)
		want = vfDownSym(vfDown(scope, a), b)
	case 7: // multi-name path with two segments
		a, b := vfSeg("a"), vfSeg("b")
		put(0x2f, 2)
		put(a[:]...)
		put(b[:]...)
		want = vfDownSym(vfDown(scope, a), b)
	}
	got := tree.Find(uint32(scope), expr[:n])
	zzverif.Reach("looked-up")
	zzverif.Assert(got == want, "Find returns exactly the node ACPI's search rules designate, or not-found")
}

// Arbitrary byte strings never crash the lookup and yield not-found or a live node.
//
//verif:split 4
func Verif_C13_find_arbitrary() {
	tree := vfBuildShape()
	scope := zzverif.Choice("scope", len(vfShape))
	n := zzverif.Choice("len", zzverif.Param("exprlen", 5, 7)+1)
	expr := zzverif.Bytes("expr", 7)[:n]
	var got uint32
	panicked := zzverif.Catch(func() { got = tree.Find(uint32(scope), expr) })
	zzverif.Assert(!panicked, "Find never crashes on a malformed expression")
	if !panicked {
		zzverif.Reach("returned")
		zzverif.Assert(zzverif.Or(got == vfInv, got < uint32(len(vfShape))), "result is not-found or an existing node")
	}
}

// NumArgs / ArgAt against the list model of the fixed shape.
func Verif_C13_args() {
	tree := vfBuildShape()
	p := zzverif.Choice("node", len(vfShape))
	var kids [8]int
	nk := 0
	for k := range vfShape {
		if vfShape[k].parent == p {
			kids[nk] = k
			nk++
		}
	}
	obj := tree.ObjectAt(uint32(p))
	zzverif.Assert(tree.NumArgs(obj) == uint32(nk), "NumArgs counts the children")
	i := zzverif.U32("i")
	a := tree.ArgAt(obj, i)
	if a == nil {
		zzverif.Assert(i >= uint32(nk), "ArgAt is nil only past the last child")
	} else {
		zzverif.Reach("arg")
		zzverif.Assert(i < uint32(nk), "ArgAt returns children only")
		for k := 0; k < nk; k++ {
			zzverif.Assert(zzverif.Implies(i == uint32(k), a.index == uint32(kids[k])), "ArgAt returns the i-th child in order")
		}
	}
}

// Lookups on the tree shape the parser builds for a scoped object: the Device's members live in an unnamed scope
// block under it.   \ -> DEV (Device d) -> B (unnamed scope block) -> X (named x);   \ -> Y (named y)
func Verif_C13_find_scope_block() {
	var names [3][amlNameLen]byte
	for i := range names {
		for k := 0; k < amlNameLen; k++ {
			c := zzverif.U8("name")
			zzverif.Assume(zzverif.Or(c == '_', zzverif.And(c >= 'A', c <= 'Z')))
			names[i][k] = c
		}
		for j := 0; j < i; j++ {
			zzverif.Assume(names[i] != names[j])
		}
	}
	d, x, y := names[0], names[1], names[2]
	tree := NewObjectTree()
	root := tree.newNamedObject(pOpIntScopeBlock, 0, [amlNameLen]byte{'\\'})
	dev := tree.newNamedObject(pOpDevice, 0, d)
	blk := tree.newObject(pOpIntScopeBlock, 0)
	xo := tree.newNamedObject(pOpName, 0, x)
	yo := tree.newNamedObject(pOpName, 0, y)
	tree.append(root, dev)
	tree.append(dev, blk)
	tree.append(blk, xo)
	tree.append(root, yo)
	cat := func(parts ...[]byte) []byte {
		var out []byte
		for _, p := range parts {
			out = append(out, p...)
		}
		return out
	}
	// absolute and relative two-segment paths reach the member through the scope block
	zzverif.Assert(tree.Find(blk.index, cat([]byte{'\\'}, d[:], x[:])) == xo.index, "an absolute multi-segment path through a scoped object reaches its member")
	zzverif.Assert(tree.Find(root.index, cat(d[:], x[:])) == xo.index, "a relative multi-segment path through a scoped object reaches its member")
	zzverif.Assert(tree.Find(root.index, cat([]byte{'\\', 0x2e}, d[:], x[:])) == xo.index, "the same with the dual-name prefix byte left in the expression")
	// a parent-prefixed name is looked up above the scope it starts from: it never resolves back into that scope
	zzverif.Assert(tree.Find(blk.index, cat([]byte{'^'}, x[:])) != xo.index, "a parent-prefixed name does not resolve to a member of the scope the lookup started from")
	zzverif.Assert(tree.Find(blk.index, cat([]byte{'^', '^'}, x[:])) != xo.index, "two parent prefixes neither")
	// the single-segment search climbs from the block through the Device to the root
	zzverif.Assert(tree.Find(blk.index, y[:]) == yo.index, "a single segment is searched in every enclosing scope up to the root")
	zzverif.Assert(tree.Find(blk.index, x[:]) == xo.index, "a single segment is found in the starting scope first")
	zzverif.Reach("done")
}
