//go:build verif

//verif:bounds more C11 program shapes, contents symbolic as in zz_verif_c11.go: name_forms (parent-prefix ^ and ^^ names inside Scope directives and inside Devices nested two deep; relative and absolute multi-segment names and Scope targets that run through two nested Devices; a method declared through such a path), scope_root (Scope(\\) written as RootChar + NullName), late_device (a name referring into a Device that is declared later through an absolute path), call_opargs (two-argument method invoked before and after its declaration with an operator expression as an argument, and as an operand of an operator), while_if (While body with a nested If followed by further statements; If body ending in a TermArg at its package end, two_tables (a second table extends, through a Scope directive, a Device declared by the first: names, constants and two Buffers), deep_chain (2..7 Devices declared deepest first through absolute multi-segment paths: one resolve pass per level, up to the parser's pass limit))
//verif:assumes shapes are enumerated (templates), contents are decided by the solver; error-message formatting stubbed; table = raw region of exactly header+program bytes
package aml

import (
	"unsafe"

	"github.com/ProjectSerenity/firefly/kernel/device/acpi/table"
	"github.com/ProjectSerenity/firefly/kernel/zzverif"
)

// vfN is a node of a small AML program tree used to generate template programs.
type vfN struct {
	op       uint16   // pOpScope, pOpDevice, pOpName, pOpMethod
	prefix   []byte   // raw bytes of the name string before its last segment (\, ^, dual/multi prefixes, leading segments)
	name     vfName   // last segment
	mflags   byte     // Method: flags byte
	val      uint8    // Name: byte constant
	kids     []*vfN   // Scope/Device/Method contents
	expPath  []vfName // expected named ancestors, outermost first (not used for Scope)
	nullName bool     // the name string is the prefix followed by a NullName (0x00) instead of a segment
}

func vfSegs(ns ...vfName) []byte {
	var out []byte
	for _, n := range ns {
		out = append(out, n[:]...)
	}
	return out
}

// enc returns the encoding of n and the expectations of n and its descendants (offsets relative to the first byte).
func (n *vfN) enc() ([]byte, []vfExpect) {
	ns := append(append([]byte{}, n.prefix...), n.name[:]...)
	if n.nullName {
		ns = append(append([]byte{}, n.prefix...), 0x00)
	}
	switch n.op {
	case pOpName:
		out := append(append([]byte{0x08}, ns...), 0x0a, n.val)
		return out, []vfExpect{{off: 0, opcode: pOpName, name: n.name, path: n.expPath, vals: []uint64{uint64(n.val)}}}
	}
	body := ns
	if n.op == pOpMethod {
		body = append(body, n.mflags)
	}
	hdr := len(body)
	var exps []vfExpect
	for _, k := range n.kids {
		kb, ke := k.enc()
		for _, e := range ke {
			e.off += len(body) - hdr // relative to the start of the contents for now
			exps = append(exps, e)
		}
		body = append(body, kb...)
	}
	pk := vfPkg(body)
	var op []byte
	switch n.op {
	case pOpScope:
		op = []byte{0x10}
	case pOpDevice:
		op = []byte{0x5b, 0x82}
	default:
		op = []byte{0x14}
	}
	contents := len(op) + (len(pk) - len(body)) + hdr
	for i := range exps {
		exps[i].off += contents
	}
	switch n.op {
	case pOpDevice:
		exps = append(exps, vfExpect{off: 0, opcode: pOpDevice, name: n.name, path: n.expPath})
	case pOpMethod:
		exps = append(exps, vfExpect{off: 0, opcode: pOpMethod, name: n.name, path: n.expPath, vals: []uint64{uint64(n.mflags)}})
	}
	return append(op, pk...), exps
}

func vfProgOf(nodes ...*vfN) *vfProg {
	p := &vfProg{}
	for _, n := range nodes {
		b, es := n.enc()
		for _, e := range es {
			e.off += len(p.code)
			p.exp = append(p.exp, e)
		}
		p.emit(b...)
	}
	return p
}

func vfByteName(prefix []byte, path []vfName) *vfN {
	return &vfN{op: pOpName, prefix: prefix, name: vfNewName(), val: zzverif.U8("const"), expPath: path}
}

//	Scope(\_SB_) {
//	  Device(D0) { Name(A0, b)  [Name(^P1, b)]  Device(D1) { Name(A1, b) [Name(^^P2, b)] [Name(^P3, b)] } }
//	  Name(^P0, b)                                  -- parent prefix directly inside a scope directive: the root
//	  Name(D0.D1.R1, b)                             -- relative multi-segment name through two devices
//	}
//
// Name(\_SB_.D0.D1.Q1, b)   Scope(\_SB_.D0.D1) { Name(Q2, b) }   Method(\_SB_.D0.D1.QM, f) {}   Name(\_SB_.D0.Q3, b)
// Scope(\_SB_.D0) { [Name(^P4, b)] }
//
//verif:split 3
func Verif_C11_name_forms() {
	vfNames = nil
	sb := vfScopeName("_SB_")
	d0, d1 := vfNewName(), vfNewName()
	inSB := []vfName{sb}
	inD0 := []vfName{sb, d0}
	inD1 := []vfName{sb, d0, d1}
	// which parent-prefix declaration inside a Device-like scope is present (0 = none)
	pp := zzverif.Choice("parent-prefix-in-device", 5)
	// KF-C11-1: a ^-prefixed name declared inside a Device (directly or through a Scope directive naming the Device)
	// is attached one level too low (the Device's anonymous scope block counts as a level of its own).
	zzverif.Known("KF-C11-1", pp != 0)
	dev1 := &vfN{op: pOpDevice, name: d1, expPath: inD0, kids: []*vfN{vfByteName(nil, inD1)}}
	dev0 := &vfN{op: pOpDevice, name: d0, expPath: inSB, kids: []*vfN{vfByteName(nil, inD0)}}
	switch pp {
	case 1:
		dev0.kids = append(dev0.kids, vfByteName([]byte{'^'}, inSB))
	case 2:
		dev1.kids = append(dev1.kids, vfByteName([]byte{'^', '^'}, inSB))
	case 3:
		dev1.kids = append(dev1.kids, vfByteName([]byte{'^'}, inD0))
	}
	dev0.kids = append(dev0.kids, dev1)
	sc := &vfN{op: pOpScope, prefix: []byte{'\\'}, name: sb, kids: []*vfN{
		dev0,
		vfByteName([]byte{'^'}, nil),
		vfByteName(append([]byte{0x2f, 3}, vfSegs(d0, d1)...), inD1),
	}}
	abs3 := append([]byte{'\\', 0x2f, 3}, vfSegs(sb, d0)...) // \_SB_.D0.<last>
	abs4 := append([]byte{'\\', 0x2f, 4}, vfSegs(sb, d0, d1)...)
	nodes := []*vfN{
		sc,
		vfByteName(abs4, inD1),
		{op: pOpScope, prefix: abs3, name: d1, kids: []*vfN{vfByteName(nil, inD1)}},
		{op: pOpMethod, prefix: abs4, name: vfNewName(), mflags: zzverif.U8("mflags"), expPath: inD1},
		vfByteName(abs3, inD0),
	}
	if pp == 4 {
		nodes = append(nodes, &vfN{op: pOpScope, prefix: append([]byte{'\\', 0x2e}, sb[:]...), name: d0, kids: []*vfN{vfByteName([]byte{'^'}, inSB)}})
	}
	vfRun(vfProgOf(nodes...))
}

// Scope(\_SB_) { Name(D2.L1, b) }   Device(\_SB_.D2) { Name(B2, b) }: a name that refers into a Device declared later
// through an absolute path can only be placed after the Device itself has been relocated (an extra resolve pass).
//
//verif:split 2
func Verif_C11_late_device() {
	vfNames = nil
	sb := vfScopeName("_SB_")
	d2 := vfNewName()
	inSB := []vfName{sb}
	inD2 := []vfName{sb, d2}
	vfRun(vfProgOf(
		&vfN{op: pOpScope, prefix: []byte{'\\'}, name: sb, kids: []*vfN{vfByteName(append([]byte{0x2e}, d2[:]...), inD2)}},
		&vfN{op: pOpDevice, prefix: append([]byte{'\\', 0x2e}, sb[:]...), name: d2, expPath: inSB, kids: []*vfN{vfByteName(nil, inD2)}},
	))
}

// Scope(\) { Name(N1, b)  Device(D0) { Name(N2, b) } }: the root scope named by a RootChar followed by a NullName.
//
//verif:split 2
func Verif_C11_scope_root() {
	vfNames = nil
	d0 := vfNewName()
	vfRun(vfProgOf(&vfN{op: pOpScope, prefix: []byte{'\\'}, nullName: true, kids: []*vfN{
		vfByteName(nil, nil),
		{op: pOpDevice, name: d0, expPath: nil, kids: []*vfN{vfByteName(nil, []vfName{d0})}},
	}}))
}

// shape expectations for executable code: the object of the given opcode at offset off has the statement object at
// offset poff (opcode pop) as its closest ancestor that is not a scope block, and nargs attached arguments (-1: not checked).
type vfStmt struct {
	off    int
	opcode uint16
	poff   int
	pop    uint16
	nargs  int
	what   string
}

func vfParseCode(code []byte) *ObjectTree {
	h, payload := vfTable(len(code))
	copy(payload, code)
	tree := NewObjectTree()
	tree.CreateDefaultScopes(0)
	parser := NewParser(vfDiscard{}, tree)
	ok := false
	panicked := zzverif.Catch(func() { ok = parser.ParseAML(1, "DSDT", h) == nil })
	zzverif.Assert(!panicked, "parsing a well-formed table never panics")
	if panicked {
		return nil
	}
	zzverif.Assert(ok, "a well-formed table is parsed successfully")
	if !ok {
		return nil
	}
	zzverif.Reach("parsed")
	return tree
}

func vfFindAt(tree *ObjectTree, opcode uint16, off int) *Object {
	var obj *Object
	for _, o := range tree.objPool {
		if o.opcode == opcode && o.amlOffset == 36+uint32(off) {
			obj = o
		}
	}
	return obj
}

func vfCheckStmts(tree *ObjectTree, shapes []vfStmt) {
	for _, s := range shapes {
		obj := vfFindAt(tree, s.opcode, s.off)
		zzverif.Assert(obj != nil, "every statement and operand of the program is present in the tree: "+s.what)
		if obj == nil {
			continue
		}
		if s.nargs >= 0 {
			zzverif.Assert(tree.NumArgs(obj) == uint32(s.nargs), "exactly the declared number of arguments is attached: "+s.what)
		}
		idx := obj.parentIndex
		for idx != InvalidIndex && tree.ObjectAt(idx).opcode == pOpIntScopeBlock {
			idx = tree.ObjectAt(idx).parentIndex
		}
		zzverif.Assert(idx != InvalidIndex, "statement has an enclosing statement: "+s.what)
		if idx == InvalidIndex {
			continue
		}
		par := tree.ObjectAt(idx)
		zzverif.Assert(par.opcode == s.pop && par.amlOffset == 36+uint32(s.poff), "the tree mirrors the nesting of the program: "+s.what)
	}
}

// vfMethod wraps body into Method(name, flags) and returns the bytes and the offset of the body inside them.
func vfMethod(name vfName, flags byte, body []byte) ([]byte, int) {
	b := append(append([]byte{}, name[:]...), flags)
	hdr := len(b)
	b = append(b, body...)
	pk := vfPkg(b)
	return append([]byte{0x14}, pk...), 1 + (len(pk) - len(b)) + hdr
}

// Method(C1,0){ FOO(Add(a,b,Local0), c) }  Method(FOO,2){}  Method(C2,0){ Add(FOO(d,e), f, Local0) }  Method(C3,0){ FOO(Add(a,b,Local0), c) }
//
//verif:split 3
func Verif_C11_call_opargs() {
	vfNames = nil
	foo := vfNewName()
	var code []byte
	var shapes []vfStmt
	callWithAdd := func(tag string) {
		cn := vfNewName()
		a, b, c := zzverif.U8("arg"), zzverif.U8("arg"), zzverif.U8("arg")
		body := append(append([]byte{}, foo[:]...), 0x72, 0x0a, a, 0x0a, b, 0x60, 0x0a, c)
		mb, at := vfMethod(cn, 0, body)
		base := len(code) + at
		shapes = append(shapes,
			vfStmt{base, pOpIntMethodCall, len(code), pOpMethod, 2, tag + ": invocation with an operator expression as first argument"},
			vfStmt{base + 4, pOpAdd, base, pOpIntMethodCall, 3, tag + ": the operator expression is the first argument"},
			vfStmt{base + 5, pOpBytePrefix, base + 4, pOpAdd, -1, tag + ": first operand"},
			vfStmt{base + 7, pOpBytePrefix, base + 4, pOpAdd, -1, tag + ": second operand"},
			vfStmt{base + 10, pOpBytePrefix, base, pOpIntMethodCall, -1, tag + ": the constant is the second argument"})
		code = append(code, mb...)
	}
	callWithAdd("call before the declaration")
	fm, _ := vfMethod(foo, 2, nil)
	code = append(code, fm...)
	{
		cn := vfNewName()
		d, e, f := zzverif.U8("arg"), zzverif.U8("arg"), zzverif.U8("arg")
		body := append([]byte{0x72}, foo[:]...)
		body = append(body, 0x0a, d, 0x0a, e, 0x0a, f, 0x60)
		mb, at := vfMethod(cn, 0, body)
		base := len(code) + at
		shapes = append(shapes,
			vfStmt{base, pOpAdd, len(code), pOpMethod, 3, "operator with an invocation as first operand"},
			vfStmt{base + 1, pOpIntMethodCall, base, pOpAdd, 2, "the invocation is the first operand"},
			vfStmt{base + 5, pOpBytePrefix, base + 1, pOpIntMethodCall, -1, "first argument of the invocation"},
			vfStmt{base + 7, pOpBytePrefix, base + 1, pOpIntMethodCall, -1, "second argument of the invocation"},
			vfStmt{base + 9, pOpBytePrefix, base, pOpAdd, -1, "second operand"})
		code = append(code, mb...)
	}
	callWithAdd("call after the declaration")
	tree := vfParseCode(code)
	if tree == nil {
		return
	}
	vfCheckStmts(tree, shapes)
}

// Method(M,0){ While(One){ [If(One){ Store(a, Local0) | Return(One) }] Store(b, Local1) }  Store(c, Local2) }
//
//verif:split 3
func Verif_C11_while_if() {
	vfNames = nil
	shape := zzverif.Choice("while-body", 3) // 0: no If; 1: If{Store}; 2: If{Return(One)} (a TermArg ends at the If's package end)
	// KF-C11-4: inside a While (deferred) body the package end of a nested If is never popped (or popped too early when the
	// If body ends in a TermArg), so the statements after the If are dropped or swallowed by the If.
	zzverif.Known("KF-C11-4", shape != 0)
	a, b, c := zzverif.U8("const"), zzverif.U8("const"), zzverif.U8("const")
	var wbody []byte
	wbody = append(wbody, 0x01) // predicate: One
	ifAt, ifStmtAt := -1, -1
	if shape != 0 {
		var ib []byte
		ib = append(ib, 0x01)
		stmtRel := len(ib)
		if shape == 1 {
			ib = append(ib, 0x70, 0x0a, a, 0x60)
		} else {
			ib = append(ib, 0xa4, 0x01)
		}
		pk := vfPkg(ib)
		ifAt = len(wbody)
		ifStmtAt = ifAt + 1 + (len(pk) - len(ib)) + stmtRel
		wbody = append(wbody, 0xa0)
		wbody = append(wbody, pk...)
	}
	storeBAt := len(wbody)
	wbody = append(wbody, 0x70, 0x0a, b, 0x61)
	wpk := vfPkg(wbody)
	wOff := 1 + (len(wpk) - len(wbody)) // offset of the While's contents relative to the While opcode
	mbody := append([]byte{0xa2}, wpk...)
	storeCRel := len(mbody)
	mbody = append(mbody, 0x70, 0x0a, c, 0x62)
	mb, at := vfMethod(vfNewName(), 0, mbody)
	whileAt := at
	shapes := []vfStmt{
		{whileAt, pOpWhile, 0, pOpMethod, -1, "the While statement"},
		{whileAt + wOff + storeBAt, pOpStore, whileAt, pOpWhile, 2, "the statement after the nested If stays in the While body"},
		{at + storeCRel, pOpStore, 0, pOpMethod, 2, "the statement after the While stays in the method body"},
	}
	if shape != 0 {
		shapes = append(shapes, vfStmt{whileAt + wOff + ifAt, pOpIf, whileAt, pOpWhile, -1, "the If nested in the While body"})
		if shape == 1 {
			shapes = append(shapes, vfStmt{whileAt + wOff + ifStmtAt, pOpStore, whileAt + wOff + ifAt, pOpIf, 2, "the If body"})
		} else {
			shapes = append(shapes, vfStmt{whileAt + wOff + ifStmtAt, pOpReturn, whileAt + wOff + ifAt, pOpIf, 1, "the If body"})
		}
	}
	tree := vfParseCode(mb)
	if tree == nil {
		return
	}
	vfCheckStmts(tree, shapes)
}

// Method(FOO, n){}  Method(C,0){ While(One){ FOO(a1..an)  Store(b, Local1) } }  for every n in 0..7: a call inside a
// deferred block is parsed strictly, with the argument count taken from the declaration.
//
//verif:split 2
func Verif_C11_deferred_calls() {
	vfNames = nil
	foo := vfNewName()
	n := zzverif.Choice("nargs", 8)
	fm, _ := vfMethod(foo, byte(n), nil)
	code := append([]byte{}, fm...)
	wbody := []byte{0x01}
	callRel := len(wbody)
	wbody = append(wbody, foo[:]...)
	var argRel []int
	for i := 0; i < n; i++ {
		argRel = append(argRel, len(wbody))
		wbody = append(wbody, 0x0a, zzverif.U8("arg"))
	}
	storeRel := len(wbody)
	wbody = append(wbody, 0x70, 0x0a, zzverif.U8("const"), 0x61)
	wpk := vfPkg(wbody)
	wOff := 1 + (len(wpk) - len(wbody))
	mb, at := vfMethod(vfNewName(), 0, append([]byte{0xa2}, wpk...))
	mAt := len(code)
	whileAt := mAt + at
	code = append(code, mb...)
	stmts := []vfStmt{
		{whileAt, pOpWhile, mAt, pOpMethod, -1, "the While statement"},
		{whileAt + wOff + callRel, pOpIntMethodCall, whileAt, pOpWhile, n, "invocation inside a deferred block"},
		{whileAt + wOff + storeRel, pOpStore, whileAt, pOpWhile, 2, "the statement after the invocation"},
	}
	for _, r := range argRel {
		stmts = append(stmts, vfStmt{whileAt + wOff + r, pOpBytePrefix, whileAt + wOff + callRel, pOpIntMethodCall, -1, "argument of the invocation inside a deferred block"})
	}
	tree := vfParseCode(code)
	if tree == nil {
		return
	}
	vfCheckStmts(tree, stmts)
}

// Device(\D0.D1...D(n-1)) { Name(An-1, b) }  ...  Device(\D0.D1) { Name(A1, b) }  Device(\D0) { Name(A0, b) }: a chain
// of n = 2..7 Devices declared deepest first through absolute multi-segment paths, so that each resolve pass can place
// exactly one more level (the seventh level lands in the last pass the parser allows; seeded C11-w5m1 gives up one pass
// early). Chains of 8 and more need more passes than maxResolvePasses and are outside this template. Chain names are
// and the names declared inside each Device are concrete (DEV0..DEV6, ADR0..ADR6: with symbolic names the exploration did
// not finish in the 8-minute box), the values and every PkgLength encoding symbolic.
//
//verif:split 3
func Verif_C11_deep_chain() {
	vfNames = nil
	depth := 2 + zzverif.Choice("depth", 6)
	var chain []vfName
	for i := 0; i < depth; i++ {
		n := vfScopeName("DEV0")
		n[3] = byte('0' + i)
		chain = append(chain, n)
		vfNames = append(vfNames, n)
	}
	var nodes []*vfN
	for d := depth - 1; d >= 0; d-- {
		var prefix []byte
		switch d {
		case 0:
			prefix = []byte{'\\'}
		case 1:
			prefix = append([]byte{'\\', 0x2e}, chain[0][:]...)
		default:
			prefix = append([]byte{'\\', 0x2f, byte(d + 1)}, vfSegs(chain[:d]...)...)
		}
		inner := vfScopeName("ADR0")
		inner[3] = byte('0' + d)
		nodes = append(nodes, &vfN{op: pOpDevice, prefix: prefix, name: chain[d], expPath: append([]vfName(nil), chain[:d]...),
			kids: []*vfN{{op: pOpName, name: inner, val: zzverif.U8("const"), expPath: append([]vfName(nil), chain[:d+1]...)}}})
	}
	vfRun(vfProgOf(nodes...))
}

// Two-table load. Table 1 (DSDT): Scope(\_SB_) { Device(D0) { Name(A0, b) } }. Table 2 (SSDT):
// Scope(\_SB_.D0) { Name(B0, Buffer(3){x, y, z})  Name(A1, b) }   Name(B1, Buffer(2){u, v}).
// Objects that a later table adds to a Device of an earlier one are found under that Device, and a Buffer declared
// there carries its size and initialiser bytes exactly like one declared at the root (its deferred block must be parsed
// although it hangs below an object of the earlier table: seeded C11-w5m2). Device and value names, constants and
// buffer bytes symbolic; one-byte PkgLengths.
func Verif_C11_two_tables() {
	vfNames = nil
	d0, a0, b0, a1, b1 := vfNewName(), vfNewName(), vfNewName(), vfNewName(), vfNewName()
	v0, v1 := zzverif.U8("const"), zzverif.U8("const")
	data := zzverif.Bytes("buf", 5)
	dev := append(append([]byte{0x5b, 0x82, 12}, d0[:]...), append(append([]byte{0x08}, a0[:]...), 0x0a, v0)...)
	t1 := append([]byte{0x10, byte(1 + 5 + len(dev)), '\\', '_', 'S', 'B', '_'}, dev...)
	inner := append(append([]byte{0x08}, b0[:]...), 0x11, 6, 0x0a, 3, data[0], data[1], data[2])
	inner = append(inner, append(append([]byte{0x08}, a1[:]...), 0x0a, v1)...)
	t2 := append([]byte{0x10, byte(1 + 10 + len(inner)), '\\', 0x2e, '_', 'S', 'B', '_'}, d0[:]...)
	t2 = append(t2, inner...)
	t2 = append(t2, append(append([]byte{0x08}, b1[:]...), 0x11, 5, 0x0a, 2, data[3], data[4])...)

	h1, p1 := vfTable(len(t1))
	copy(p1, t1)
	hl := int(unsafe.Sizeof(table.SDTHeader{}))
	buf2 := zzverif.Region("aml2", vfAmlBase+0x100000, uintptr(hl+len(t2)), 3)
	h2 := (*table.SDTHeader)(unsafe.Pointer(&buf2[0]))
	h2.Signature = [4]byte{'S', 'S', 'D', 'T'}
	h2.Length = uint32(hl + len(t2))
	h2.Revision = 2
	copy(buf2[hl:], t2)

	tree := NewObjectTree()
	tree.CreateDefaultScopes(0)
	parser := NewParser(vfDiscard{}, tree)
	var perr interface{}
	panicked := zzverif.Catch(func() {
		if e := parser.ParseAML(1, "DSDT", h1); e != nil {
			perr = e
		} else if e := parser.ParseAML(2, "SSDT", h2); e != nil {
			perr = e
		}
	})
	zzverif.Assert(!panicked, "parsing well-formed tables never panics")
	if panicked {
		return
	}
	zzverif.Assert(perr == nil, "two well-formed tables are parsed successfully, the second extending a Device of the first")
	if perr != nil {
		return
	}
	zzverif.Reach("parsed")
	sb := vfScopeName("_SB_")
	find := func(n vfName, path []vfName) *Object {
		var obj *Object
		for _, o := range tree.objPool {
			if o.opcode == pOpName && o.name == [amlNameLen]byte(n) {
				obj = o
			}
		}
		zzverif.Assert(obj != nil, "every declared object is present with its declared kind")
		if obj == nil {
			return nil
		}
		idx := obj.parentIndex
		for k := len(path) - 1; k >= 0; k-- {
			for idx != InvalidIndex && tree.ObjectAt(idx).name[0] == 0 {
				idx = tree.ObjectAt(idx).parentIndex
			}
			zzverif.Assert(idx != InvalidIndex, "object is nested as deep as its declaration")
			if idx == InvalidIndex {
				return obj
			}
			zzverif.Assert(tree.ObjectAt(idx).name == [amlNameLen]byte(path[k]), "an object added by a later table is found at the absolute path ACPI scoping rules give it")
			idx = tree.ObjectAt(idx).parentIndex
		}
		for idx != InvalidIndex && tree.ObjectAt(idx).name[0] == 0 {
			idx = tree.ObjectAt(idx).parentIndex
		}
		zzverif.Assert(idx == 0, "the outermost enclosing scope is the root")
		return obj
	}
	checkInt := func(n vfName, path []vfName, v uint8) {
		if o := find(n, path); o != nil {
			zzverif.Assert(tree.NumArgs(o) == 2, "a Name has its name and its value attached")
			if tree.NumArgs(o) == 2 {
				x, ok := tree.ArgAt(o, 1).value.(uint64)
				zzverif.Assert(ok && x == uint64(v), "constants carry the encoded values")
			}
		}
	}
	checkBuf := func(n vfName, path []vfName, want []byte) {
		o := find(n, path)
		if o == nil {
			return
		}
		zzverif.Assert(tree.NumArgs(o) == 2, "a Name has its name and its value attached")
		if tree.NumArgs(o) != 2 {
			return
		}
		b := tree.ArgAt(o, 1)
		zzverif.Assert(b.opcode == pOpBuffer, "the value is the declared Buffer")
		zzverif.Assert(tree.NumArgs(b) == 2, "a Buffer carries its size and its initialiser bytes, also when a later table adds it to an earlier table's Device")
		if b.opcode != pOpBuffer || tree.NumArgs(b) != 2 {
			return
		}
		size, ok := tree.ArgAt(b, 0).value.(uint64)
		zzverif.Assert(ok && size == uint64(len(want)), "buffer size as encoded")
		bytes, ok := tree.ArgAt(b, 1).value.([]byte)
		zzverif.Assert(ok && len(bytes) == len(want), "buffer initialiser length as encoded")
		if ok && len(bytes) == len(want) {
			for i := range want {
				zzverif.Assert(bytes[i] == want[i], "buffer bytes as encoded")
			}
		}
	}
	checkInt(a0, []vfName{sb, d0}, v0)
	checkInt(a1, []vfName{sb, d0}, v1)
	checkBuf(b0, []vfName{sb, d0}, data[0:3])
	checkBuf(b1, nil, data[3:5])
}
