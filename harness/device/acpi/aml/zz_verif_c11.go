//go:build verif

//verif:bounds well-formed AML programs of fixed shape with symbolic contents: every name segment (4 bytes, [A-Z][A-Z0-9_]{3}, pairwise distinct), every integer/string constant, every flag byte and (by Choice) every PkgLength encoding of 1 or 2 bytes (thorough: 1..3) symbolic. Templates: named_kinds (Name with byte/word/dword/qword/string values, Device, Method, Mutex, Event, OpRegion, ThermalZone, Processor, PowerResource, at the root and nested in a Device), scope_abs (Scope(\_SB_) and Scope(\_SB_.DEV) extending a device declared earlier), method_calls (two-argument method called before and after its declaration)
//verif:assumes shapes are enumerated (templates), contents are decided by the solver; error-message formatting stubbed; table = raw region of exactly header+program bytes
//verif:override github.com/ProjectSerenity/firefly/kernel/kfmt.Fprintf vfNoFprintf
package aml

import (
	"github.com/ProjectSerenity/firefly/kernel/device/acpi/table"
	"github.com/ProjectSerenity/firefly/kernel/zzverif"
)

type vfName [4]byte

var vfNames []vfName

// vfNewName: a fresh symbolic name segment, distinct from every earlier one, not starting with '_'
// (so it cannot collide with the predefined scopes).
func vfNewName() vfName {
	var n vfName
	for i := 0; i < 4; i++ {
		c := zzverif.U8("name")
		up := zzverif.And(c >= 'A', c <= 'Z')
		if i == 0 {
			zzverif.Assume(up)
		} else {
			zzverif.Assume(zzverif.Or(up, zzverif.Or(c == '_', zzverif.And(c >= '0', c <= '9'))))
		}
		n[i] = c
	}
	for _, o := range vfNames {
		zzverif.Assume(n != o)
	}
	vfNames = append(vfNames, n)
	return n
}

// vfPkg prefixes body with a PkgLength in the chosen encoding (the length counts its own bytes).
func vfPkg(body []byte) []byte {
	enc := 1 + zzverif.Choice("pkglen", zzverif.Param("pkgforms", 2, 3))
	l := len(body) + enc
	var out []byte
	switch enc {
	case 1:
		zzverif.Assume(l <= 63)
		out = []byte{byte(l)}
	case 2:
		out = []byte{0x40 | byte(l&0xf), byte(l >> 4)}
	default:
		out = []byte{0x80 | byte(l&0xf), byte(l >> 4), byte(l >> 12)}
	}
	return append(out, body...)
}

type vfExpect struct {
	off    int // offset of the object's opcode inside the payload
	opcode uint16
	name   vfName
	path   []vfName // enclosing named scopes, outermost first (predefined scopes included)
	vals   []uint64 // expected integer argument values, in order (arguments that are integers only)
	str    []byte   // expected string value (Name with a string)
}

type vfProg struct {
	code []byte
	exp  []vfExpect
}

func (p *vfProg) emit(b ...byte) { p.code = append(p.code, b...) }

func vfScopeName(s string) vfName { var n vfName; copy(n[:], s); return n }

// vfRun parses the program and checks every expectation against the tree.
func vfRun(p *vfProg) {
	h, payload := vfTable(len(p.code))
	copy(payload, p.code)
	hl := uint32(36)
	tree := NewObjectTree()
	tree.CreateDefaultScopes(0)
	parser := NewParser(vfDiscard{}, tree)
	var perr interface{}
	panicked := zzverif.Catch(func() {
		if e := parser.ParseAML(1, "DSDT", h); e != nil {
			perr = e
		}
	})
	zzverif.Assert(!panicked, "parsing a well-formed table never panics")
	if panicked {
		return
	}
	zzverif.Assert(perr == nil, "a well-formed table is parsed successfully")
	if perr != nil {
		return
	}
	zzverif.Reach("parsed")
	for _, e := range p.exp {
		var obj *Object
		for _, o := range tree.objPool {
			if o.opcode == e.opcode && o.amlOffset == hl+uint32(e.off) {
				obj = o
			}
		}
		zzverif.Assert(obj != nil, "every declared object is present with its declared kind")
		if obj == nil {
			continue
		}
		zzverif.Assert(obj.name == [amlNameLen]byte(e.name), "object carries its declared name")
		// absolute path: names of the enclosing named scopes, innermost first
		idx := obj.parentIndex
		for k := len(e.path) - 1; k >= 0; k-- {
			for idx != InvalidIndex && tree.ObjectAt(idx).name[0] == 0 {
				idx = tree.ObjectAt(idx).parentIndex
			}
			zzverif.Assert(idx != InvalidIndex, "object is nested as deep as its declaration")
			if idx == InvalidIndex {
				break
			}
			zzverif.Assert(tree.ObjectAt(idx).name == [amlNameLen]byte(e.path[k]), "object is found at the absolute path ACPI scoping rules give it")
			idx = tree.ObjectAt(idx).parentIndex
		}
		for idx != InvalidIndex && tree.ObjectAt(idx).name[0] == 0 {
			idx = tree.ObjectAt(idx).parentIndex
		}
		zzverif.Assert(idx == 0, "the outermost enclosing scope is the root")
		// integer arguments in order
		vi := 0
		for a := uint32(0); a < tree.NumArgs(obj); a++ {
			arg := tree.ArgAt(obj, a)
			if v, ok := arg.value.(uint64); ok && vi < len(e.vals) {
				zzverif.Assert(v == e.vals[vi], "constants carry the encoded values, in order")
				vi++
			}
			if s, ok := arg.value.([]byte); ok && arg.opcode == pOpStringPrefix {
				zzverif.Assert(len(s) == len(e.str), "string constant length")
				if len(s) == len(e.str) {
					for k := range s {
						zzverif.Assert(s[k] == e.str[k], "string constant bytes")
					}
				}
			}
		}
		zzverif.Assert(vi == len(e.vals), "all declared integer arguments are attached")
	}
}

// decl helpers: each returns the encoded bytes; expectations are recorded with offsets relative to `at`.
func (p *vfProg) nameInt(at int, path []vfName, width int) []byte {
	n := vfNewName()
	var v uint64
	var enc []byte
	switch width {
	case 1:
		x := zzverif.U8("const")
		v, enc = uint64(x), []byte{0x0a, x}
	case 2:
		x := zzverif.U16("const")
		v, enc = uint64(x), []byte{0x0b, byte(x), byte(x >> 8)}
	case 4:
		x := zzverif.U32("const")
		v, enc = uint64(x), []byte{0x0c, byte(x), byte(x >> 8), byte(x >> 16), byte(x >> 24)}
	default:
		x := zzverif.U64("const")
		v, enc = x, []byte{0x0e, byte(x), byte(x >> 8), byte(x >> 16), byte(x >> 24), byte(x >> 32), byte(x >> 40), byte(x >> 48), byte(x >> 56)}
	}
	p.exp = append(p.exp, vfExpect{off: at, opcode: pOpName, name: n, path: path, vals: []uint64{v}})
	return append(append([]byte{0x08}, n[:]...), enc...)
}

func (p *vfProg) nameStr(at int, path []vfName) []byte {
	n := vfNewName()
	c0, c1 := zzverif.U8("char"), zzverif.U8("char")
	zzverif.Assume(zzverif.And(c0 >= 0x20, c0 < 0x7f))
	zzverif.Assume(zzverif.And(c1 >= 0x20, c1 < 0x7f))
	p.exp = append(p.exp, vfExpect{off: at, opcode: pOpName, name: n, path: path, str: []byte{c0, c1}})
	return append(append([]byte{0x08}, n[:]...), 0x0d, c0, c1, 0x00)
}

func vfPath(base []vfName, n vfName) []vfName { return append(append([]vfName(nil), base...), n) }

//verif:split 4
func Verif_C11_named_kinds() {
	vfNames = nil
	p := &vfProg{}
	root := []vfName{}
	// integer and string names at the root
	for _, w := range []int{1, 2, 4, 8} {
		p.emit(p.nameInt(len(p.code), root, w)...)
	}
	p.emit(p.nameStr(len(p.code), root)...)
	// Device(DEV) { Name(byte) Method(M, flags){} Mutex(MX, f) Event(EV) }
	dev := vfNewName()
	devAt := len(p.code)
	inDev := vfPath(root, dev)
	// the body's offsets depend on the PkgLength size: build the body first with offsets relative to its start
	var body []byte
	body = append(body, dev[:]...)
	sub := &vfProg{}
	sub.emit(sub.nameInt(0, inDev, 1)...)
	m := vfNewName()
	mflags := zzverif.U8("mflags")
	mAt := len(sub.code)
	sub.emit(0x14)
	sub.emit(vfPkg(append(append([]byte{}, m[:]...), mflags))...)
	sub.exp = append(sub.exp, vfExpect{off: mAt, opcode: pOpMethod, name: m, path: inDev, vals: []uint64{uint64(mflags)}})
	mx := vfNewName()
	sync := zzverif.U8("sync")
	sub.exp = append(sub.exp, vfExpect{off: len(sub.code), opcode: pOpMutex, name: mx, path: inDev, vals: []uint64{uint64(sync)}})
	sub.emit(0x5b, 0x01)
	sub.emit(mx[:]...)
	sub.emit(sync)
	ev := vfNewName()
	sub.exp = append(sub.exp, vfExpect{off: len(sub.code), opcode: pOpEvent, name: ev, path: inDev})
	sub.emit(0x5b, 0x02)
	sub.emit(ev[:]...)
	body = append(body, sub.code...)
	pk := vfPkg(body)
	p.emit(0x5b, 0x82)
	inner := len(p.code) + (len(pk) - len(body)) + 4 // start of the device's term list inside the payload
	p.emit(pk...)
	p.exp = append(p.exp, vfExpect{off: devAt, opcode: pOpDevice, name: dev, path: root})
	for _, e := range sub.exp {
		e.off += inner
		p.exp = append(p.exp, e)
	}
	// OpRegion(R, space, byte offset, byte length)
	r := vfNewName()
	space, roff, rlen := zzverif.U8("space"), zzverif.U8("roff"), zzverif.U8("rlen")
	p.exp = append(p.exp, vfExpect{off: len(p.code), opcode: pOpOpRegion, name: r, path: root, vals: []uint64{uint64(space), uint64(roff), uint64(rlen)}})
	p.emit(0x5b, 0x80)
	p.emit(r[:]...)
	p.emit(space, 0x0a, roff, 0x0a, rlen)
	// ThermalZone(TZ){ Name(byte) }, Processor(P, id, addr, len){}, PowerResource(PR, level, order){}
	tz := vfNewName()
	tzAt := len(p.code)
	tsub := &vfProg{}
	tsub.emit(tsub.nameInt(0, vfPath(root, tz), 1)...)
	tpk := vfPkg(append(append([]byte{}, tz[:]...), tsub.code...))
	p.emit(0x5b, 0x85)
	tinner := len(p.code) + (len(tpk) - len(tsub.code))
	p.emit(tpk...)
	p.exp = append(p.exp, vfExpect{off: tzAt, opcode: pOpThermalZone, name: tz, path: root})
	for _, e := range tsub.exp {
		e.off += tinner
		p.exp = append(p.exp, e)
	}
	pr := vfNewName()
	pid, plen := zzverif.U8("procid"), zzverif.U8("pblklen")
	paddr := zzverif.U32("pblkaddr")
	p.exp = append(p.exp, vfExpect{off: len(p.code), opcode: pOpProcessor, name: pr, path: root, vals: []uint64{uint64(pid), uint64(paddr), uint64(plen)}})
	p.emit(0x5b, 0x83)
	p.emit(vfPkg(append(append([]byte{}, pr[:]...), pid, byte(paddr), byte(paddr>>8), byte(paddr>>16), byte(paddr>>24), plen))...)
	pw := vfNewName()
	lvl := zzverif.U8("syslevel")
	ord := zzverif.U16("resorder")
	p.exp = append(p.exp, vfExpect{off: len(p.code), opcode: pOpPowerRes, name: pw, path: root, vals: []uint64{uint64(lvl), uint64(ord)}})
	p.emit(0x5b, 0x84)
	p.emit(vfPkg(append(append([]byte{}, pw[:]...), lvl, byte(ord), byte(ord>>8)))...)
	vfRun(p)
}

// Scope(\_SB_) { Device(DEV) { Name(A, b) } }  Scope(\_SB_.DEV) { Name(B, b) }
//
//verif:split 3
func Verif_C11_scope_abs() {
	vfNames = nil
	sb := vfScopeName("_SB_")
	p := &vfProg{}
	dev := vfNewName()
	inDev := []vfName{sb, dev}
	// inner device body
	sub := &vfProg{}
	sub.emit(sub.nameInt(0, inDev, 1)...)
	devBody := append(append([]byte{}, dev[:]...), sub.code...)
	devPk := vfPkg(devBody)
	scopeBody := append([]byte{'\\', '_', 'S', 'B', '_'}, 0x5b, 0x82)
	devAtInScope := len(scopeBody) - 2
	scopeBody = append(scopeBody, devPk...)
	scPk := vfPkg(scopeBody)
	p.emit(0x10)
	scopeStart := len(p.code) + (len(scPk) - len(scopeBody))
	p.emit(scPk...)
	devAt := scopeStart + devAtInScope
	p.exp = append(p.exp, vfExpect{off: devAt, opcode: pOpDevice, name: dev, path: []vfName{sb}})
	inner := devAt + 2 + (len(devPk) - len(devBody)) + 4
	for _, e := range sub.exp {
		e.off += inner
		p.exp = append(p.exp, e)
	}
	// second directive: Scope(\_SB_.DEV) { Name(B, b) } - a dual-name path through the predefined scope to the device
	sub2 := &vfProg{}
	sub2.emit(sub2.nameInt(0, inDev, 1)...)
	body2 := append([]byte{'\\', 0x2e, '_', 'S', 'B', '_'}, dev[:]...)
	body2 = append(body2, sub2.code...)
	pk2 := vfPkg(body2)
	p.emit(0x10)
	inner2 := len(p.code) + (len(pk2) - len(body2)) + 10
	p.emit(pk2...)
	for _, e := range sub2.exp {
		e.off += inner2
		p.exp = append(p.exp, e)
	}
	vfRun(p)
}

// Method(CAL1,0){ FOO(a, b) }  Method(FOO, 2){}  Method(CAL2,0){ FOO(c, d) }: calls before and after the declaration
//
//verif:split 3
func Verif_C11_method_calls() {
	vfNames = nil
	foo := vfNewName()
	p := &vfProg{}
	var callOff [2]int
	var args [2][2]uint8
	mk := func(which int) {
		cn := vfNewName()
		a, b := zzverif.U8("arg"), zzverif.U8("arg")
		args[which] = [2]uint8{a, b}
		body := append(append([]byte{}, cn[:]...), 0x00) // flags: 0 arguments
		callRel := len(body)
		body = append(body, foo[:]...)
		body = append(body, 0x0a, a, 0x0a, b)
		pk := vfPkg(body)
		p.emit(0x14)
		callOff[which] = len(p.code) + (len(pk) - len(body)) + callRel
		p.emit(pk...)
	}
	mk(0)
	fflags := byte(2) // two arguments
	p.exp = append(p.exp, vfExpect{off: len(p.code), opcode: pOpMethod, name: foo, path: nil, vals: []uint64{uint64(fflags)}})
	p.emit(0x14)
	p.emit(vfPkg(append(append([]byte{}, foo[:]...), fflags))...)
	mk(1)
	h, payload := vfTable(len(p.code))
	copy(payload, p.code)
	tree := NewObjectTree()
	tree.CreateDefaultScopes(0)
	parser := NewParser(vfDiscard{}, tree)
	ok := false
	panicked := zzverif.Catch(func() { ok = parser.ParseAML(1, "DSDT", h) == nil })
	zzverif.Assert(!panicked, "parsing a well-formed table never panics")
	if panicked {
		return
	}
	zzverif.Assert(ok, "a well-formed table is parsed successfully")
	if !ok {
		return
	}
	zzverif.Reach("parsed")
	var fooObj *Object
	for _, o := range tree.objPool {
		if o.opcode == pOpMethod && o.name == [amlNameLen]byte(foo) {
			fooObj = o
		}
	}
	zzverif.Assert(fooObj != nil, "the method is declared")
	for which := 0; which < 2; which++ {
		var call *Object
		for _, o := range tree.objPool {
			if o.opcode == pOpIntMethodCall && o.amlOffset == 36+uint32(callOff[which]) {
				call = o
			}
		}
		zzverif.Assert(call != nil, "every invocation is recognised, whether the method is declared before or after the call")
		if call == nil || fooObj == nil {
			continue
		}
		zzverif.Assert(call.value.(uint32) == fooObj.index, "the invocation refers to the declared method")
		zzverif.Assert(tree.NumArgs(call) == 2, "exactly the declared number of arguments is attached")
		if tree.NumArgs(call) == 2 {
			for k := uint32(0); k < 2; k++ {
				v, isInt := tree.ArgAt(call, k).value.(uint64)
				zzverif.Assert(isInt && v == uint64(args[which][k]), "arguments in order with the encoded values")
			}
		}
	}
}

var _ = table.SDTHeader{}
