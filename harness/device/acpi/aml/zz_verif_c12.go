//go:build verif

//verif:bounds whole-parser runs on a table of N fully symbolic payload bytes (quick 2, thorough 3) behind a valid header; templates with unconstrained holes: a Device with a dual-name path of 8 symbolic name bytes, a Field with a Connection buffer whose length prefix is symbolic, a path-declared Name followed by a Scope directive with all eight name bytes symbolic, a Device declared through a three-segment absolute path (middle and last segment symbolic) around a nested Device (the path may resolve into the object's own body), a Method whose PkgLength cuts its name short (2 symbolic bytes), a Scope(\\_SB_) whose body is 1..2 symbolic bytes, a Buffer whose size operand is a nested Buffer with both package-length bytes drawn from a menu of 20 values (0..17, 0x41, 0xff)
//verif:assumes the table is a raw region of exactly header+payload bytes (any access outside it is a violation); error-message formatting (kfmt.Fprintf) is stubbed while encoding; exceeding the call-depth / instruction budget counts as non-termination
//verif:override github.com/ProjectSerenity/firefly/kernel/kfmt.Fprintf vfNoFprintf
package aml

import (
	"io"
	"unsafe"

	"github.com/ProjectSerenity/firefly/kernel/device/acpi/table"
	"github.com/ProjectSerenity/firefly/kernel/zzverif"
)

const vfAmlBase = uintptr(0x20000000)

func vfNoFprintf(w io.Writer, format string, args ...interface{}) {}

type vfDiscard struct{}

func (vfDiscard) Write(p []byte) (int, error) { return len(p), nil }

// vfTable creates a table region with n payload bytes and a valid header; returns the payload slice.
func vfTable(n int) (*table.SDTHeader, []byte) {
	hl := int(unsafe.Sizeof(table.SDTHeader{}))
	buf := zzverif.Region("aml", vfAmlBase, uintptr(hl+n), 3)
	h := (*table.SDTHeader)(unsafe.Pointer(&buf[0]))
	h.Signature = [4]byte{'D', 'S', 'D', 'T'}
	h.Length = uint32(hl + n)
	h.Revision = 2
	return h, buf[hl:]
}

// vfCheckTree: every byte slice the tree refers to lies inside the table; parent chains end; child lists are consistent.
func vfCheckTree(tree *ObjectTree) {
	n := len(tree.objPool)
	for i := 0; i < n; i++ {
		o := tree.objPool[i]
		if o.opcode == pOpIntFreedObject {
			continue
		}
		if b, ok := o.value.([]byte); ok && len(b) > 0 {
			zzverif.Assert(zzverif.InRegion(unsafe.Pointer(&b[:1][0]), uintptr(len(b)), "aml"), "every string, name and buffer the tree refers to lies inside the table's bytes")
		}
		// parent chain reaches an unparented node within n steps
		c := o.parentIndex
		for k := 0; k < n && c != InvalidIndex; k++ {
			zzverif.Assert(c < uint32(n), "parent link in range")
			if c >= uint32(n) {
				return
			}
			c = tree.objPool[c].parentIndex
		}
		zzverif.Assert(c == InvalidIndex, "the tree stays a tree: every parent chain ends")
		// child list: forward walk ends at lastArg within n steps and every child names this parent
		c = o.firstArgIndex
		last := InvalidIndex
		for k := 0; k <= n && c != InvalidIndex; k++ {
			zzverif.Assert(c < uint32(n), "child link in range")
			if c >= uint32(n) {
				return
			}
			zzverif.Assert(tree.objPool[c].parentIndex == o.index, "child's parent link agrees with the parent's child list")
			last = c
			c = tree.objPool[c].nextSiblingIndex
		}
		zzverif.Assert(c == InvalidIndex, "sibling chains end")
		zzverif.Assert(last == o.lastArgIndex, "last child link agrees with the list")
	}
}

func vfParse(h *table.SDTHeader) {
	tree := NewObjectTree()
	tree.CreateDefaultScopes(0)
	p := NewParser(vfDiscard{}, tree)
	panicked := zzverif.Catch(func() { _ = p.ParseAML(1, "DSDT", h) })
	zzverif.Assert(!panicked, "parsing never panics: malformed input is rejected with an error")
	if panicked {
		return
	}
	zzverif.Reach("parsed-or-rejected")
	vfCheckTree(tree)
	// accepted or rejected, what is left in the tree can be traversed and printed
	// (quick tier: only in the harnesses that ask for it; printing doubles the cost of the two widest ones)
	if vfPrint || zzverif.Tier() == 1 {
		printPanicked := zzverif.Catch(func() { tree.PrettyPrint(vfDiscard{}) })
		zzverif.Assert(!printPanicked, "the tree can be printed after parsing, whether the table was accepted or rejected")
	}
}

var vfPrint bool

// Every payload of N bytes.
//
//verif:split 6
//verif:budget-is-violation
//verif:depth 120
func Verif_C12_parse_bytes() {
	vfPrint = false
	n := 1 + zzverif.Choice("len", zzverif.Param("bytes", 2, 3))
	h, payload := vfTable(n)
	_ = payload
	vfParse(h)
}

// Device declared with a dual-name path: 5b 82 <pkglen> 2e <8 name bytes>.
//
//verif:budget-is-violation
//verif:depth 120
func Verif_C12_tmpl_device_path() {
	vfPrint = true
	h, p := vfTable(12)
	p[0], p[1], p[2], p[3] = 0x5b, 0x82, 0x0a, 0x2e
	for i := 4; i < 12; i++ {
		c := p[i]
		zzverif.Assume(zzverif.Or(c == '_', zzverif.And(c >= 'A', c <= 'Z')))
	}
	vfParse(h)
}

// Field with a Connection whose buffer length prefix is arbitrary: 5b 81 0c NAME flags 02 11 <pkglen> 0a <len> 00.
//
//verif:budget-is-violation
//verif:depth 120
func Verif_C12_tmpl_connection_buffer() {
	vfPrint = true
	h, p := vfTable(14)
	copy(p, []byte{0x5b, 0x81, 0x0c, 'A', 'A', 'A', 'A', 0x00, 0x02, 0x11, 0x04, 0x0a})
	// p[12] (declared buffer length) and p[13] stay symbolic
	vfParse(h)
}

// Name(BUF0, Buffer(<pkglen L1>){ size = Buffer(<pkglen L2>){One, bytes...} }): nested buffers with every
// combination of (possibly inconsistent) package-length bytes from a menu: 08 BUF0 11 <L1> 11 <L2> 01 00 00 00 00 00 00.
// The lengths are enumerated (Choice) rather than symbolic: a symbolic package end makes every later stream
// offset symbolic, which the memory model pays for with one case split per access.
//
//verif:budget-is-violation
//verif:depth 120
func Verif_C12_tmpl_nested_buffer() {
	vfPrint = true
	h, p := vfTable(16)
	copy(p, []byte{0x08, 'B', 'U', 'F', '0', 0x11})
	menu := [20]byte{0, 1, 2, 3, 4, 5, 6, 7, 8, 9, 10, 11, 12, 13, 14, 15, 16, 17, 0x41, 0xff}
	p[6] = menu[zzverif.Choice("L1", 20)]
	p[7] = 0x11
	p[8] = menu[zzverif.Choice("L2", 20)]
	p[9] = 0x01
	for i := 10; i < 16; i++ {
		p[i] = 0
	}
	vfParse(h)
}

// A named object declared through a two-segment absolute path followed by a Scope directive, all eight name
// bytes arbitrary (so either may or may not resolve): 08 5c 2e <SEG0> FOO0 00 | 10 05 <TGT0>.
//
//verif:budget-is-violation
//verif:depth 120
func Verif_C12_tmpl_scope_resolution() {
	vfPrint = true
	h, p := vfTable(18)
	copy(p, []byte{0x08, 0x5c, 0x2e})
	copy(p[7:], []byte{'F', 'O', 'O', '0', 0x00, 0x10, 0x05})
	for _, i := range []int{3, 4, 5, 6, 14, 15, 16, 17} {
		c := p[i]
		zzverif.Assume(zzverif.Or(c == '_', zzverif.And(c >= 'A', c <= 'Z')))
	}
	vfParse(h)
}

// A Device declared through a three-segment absolute path whose body declares another Device; the middle and last
// segments of the path and nothing else are arbitrary, so the path may resolve into the object's own body (a path of the
// form \\ABCD.EFGH.ABCD around Device(EFGH) would re-parent the object under its own descendant: seeded C12-w5m2):
// 5b 82 17 5c 2f 03 ABCD <SEG1> <SEG2> | 5b 82 05 EFGH.
//
//verif:budget-is-violation
//verif:depth 120
func Verif_C12_tmpl_path_into_own_body() {
	vfPrint = true
	h, p := vfTable(25)
	copy(p, []byte{0x5b, 0x82, 0x17, 0x5c, 0x2f, 0x03, 'A', 'B', 'C', 'D'})
	copy(p[18:], []byte{0x5b, 0x82, 0x05, 'E', 'F', 'G', 'H'})
	for i := 10; i < 18; i++ {
		c := p[i]
		zzverif.Assume(zzverif.Or(c == '_', zzverif.And(c >= 'A', c <= 'Z')))
	}
	vfParse(h)
}

// Scope(\_SB_){ <1..2 arbitrary bytes> }: an arbitrary (mostly truncated) statement inside a predefined scope,
// where operand collection could reach past the scope into the root's other children: 10 <7|8> 5c _SB_ <b0> [<b1>].
//
//verif:split 4
//verif:budget-is-violation
//verif:depth 120
func Verif_C12_tmpl_scope_body() {
	vfPrint = false
	n := 1 + zzverif.Choice("len", 2)
	h, p := vfTable(7 + n)
	copy(p, []byte{0x10, byte(6 + n), 0x5c, '_', 'S', 'B', '_'})
	vfParse(h)
}

// Method whose PkgLength cuts its name short: 14 03 <2 arbitrary bytes> (rejected, leaves a half-built Method behind).
//
//verif:budget-is-violation
//verif:depth 120
func Verif_C12_tmpl_method_truncated() {
	vfPrint = true
	h, p := vfTable(4)
	p[0], p[1] = 0x14, 0x03
	vfParse(h)
}
