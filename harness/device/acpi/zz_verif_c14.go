//go:build verif

//verif:bounds RSDP scan: search window of S 16-byte slots (quick 3, thorough 4) with every byte arbitrary (signature, revision, checksum, decoys); table enumeration: root table (RSDT 4-byte or XSDT 8-byte entries) listing E tables (quick 1, thorough 3) of 44 bytes plus optionally a FADT with its DSDT, every byte of every table arbitrary, listing order symbolic; the DSDT alone in its frame: page-aligned, crossing a page boundary, or at the 4 GiB-aligned address 0x200000000 (reachable through the 64-bit pointer only)
//verif:assumes table lengths in the headers equal the concrete lengths of this layout; listed signatures pairwise distinct; entries point at the layout's table slots; firmware memory at the constant address 0x20000000 (A-ADDR); mapping calls are the repository's own test seams (identity mapping); kfmt.Fprintf is replaced by a one-byte report to the writer
//verif:override github.com/ProjectSerenity/firefly/kernel/kfmt.Fprintf vfReport
package acpi

import (
	"io"
	"unsafe"

	"github.com/ProjectSerenity/firefly/kernel"
	"github.com/ProjectSerenity/firefly/kernel/device/acpi/table"
	"github.com/ProjectSerenity/firefly/kernel/mm"
	"github.com/ProjectSerenity/firefly/kernel/mm/vmm"
	"github.com/ProjectSerenity/firefly/kernel/zzverif"
)

const vfFwBase = uintptr(0x20000000)
const vfFwHighBase = uintptr(0x200000000) // low 32 bits zero

// vfReport stands in for kfmt.Fprintf while encoding: every report is one byte on the writer.
func vfReport(w io.Writer, format string, args ...interface{}) {
	w.Write([]byte{'!'})
}

type vfCount struct{ n int }

func (c *vfCount) Write(p []byte) (int, error) { c.n += len(p); return len(p), nil }

func vfSum(base, off, n uintptr) uint8 {
	var s uint8
	for i := uintptr(0); i < n; i++ {
		s += *(*uint8)(unsafe.Pointer(base + off + i))
	}
	return s
}

// vfTab: a firmware table placed by the harness, and how far the identity mappings requested for its first
// frame reached after the first request (the header read follows it) and after all requests.
type vfTab struct {
	addr, length        uintptr
	calls               int
	firstEnd, mappedEnd uintptr
}

var vfTabs []vfTab

func vfSeams() (unmaps *int) {
	n := 0
	mapFn = func(mm.Page, mm.Frame, vmm.PageTableEntryFlag) *kernel.Error { return nil }
	identityMapFn = func(f mm.Frame, size uintptr, fl vmm.PageTableEntryFlag) (mm.Page, *kernel.Error) {
		pages := size >> mm.PageShift
		if size&(mm.PageSize-1) != 0 {
			pages++
		}
		end := f.Address() + pages<<mm.PageShift
		for i := range vfTabs {
			t := &vfTabs[i]
			if mm.FrameFromAddress(t.addr) != f {
				continue
			}
			t.calls++
			if t.calls == 1 {
				t.firstEnd = end
			}
			if end > t.mappedEnd {
				t.mappedEnd = end
			}
		}
		return mm.Page(f), nil
	}
	unmapFn = func(mm.Page) *kernel.Error { n++; return nil }
	return &n
}

// RSDP: found wherever it sits on a 16-byte boundary, accepted only with a valid checksum,
// 32-bit root for revision 0 and the 64-bit root otherwise; the window is unmapped on every path.
func Verif_C14_rsdp() {
	slots := zzverif.Param("slots", 3, 4)
	// ACPI 2.0+: the extended root pointer is 36 bytes and its extended checksum covers exactly those
	// (the Go struct is padded to 40 bytes; the oracle is stated from the specification, not from the struct)
	sizeExt := uintptr(36)
	cap := uintptr(16*slots) + sizeExt + 4
	buf := zzverif.Region("bios", vfFwBase, cap, 1)
	base := uintptr(unsafe.Pointer(&buf[0]))
	unmaps := vfSeams()
	rsdpLocationLow, rsdpLocationHi = base, base+uintptr(16*slots)
	addr, useX, err := locateRSDT()
	pages := int(mm.PageFromAddress(rsdpLocationHi)-mm.PageFromAddress(rsdpLocationLow)) + 1
	zzverif.Assert(*unmaps == pages, "the search window is unmapped again on every return path")
	// reference: first slot with the signature and a valid checksum
	found := false
	var wantAddr uintptr
	var wantX bool
	sig := [8]byte{'R', 'S', 'D', ' ', 'P', 'T', 'R', ' '}
	for k := slots - 1; k >= 0; k-- {
		off := uintptr(16 * k)
		m := true
		for i := uintptr(0); i < 8; i++ {
			m = zzverif.And(m, buf[off+i] == sig[i])
		}
		rev := buf[off+15]
		d1 := (*table.RSDPDescriptor)(unsafe.Pointer(base + off))
		d2 := (*table.ExtRSDPDescriptor)(unsafe.Pointer(base + off))
		valid := zzverif.IteBool(rev == 0, vfSum(base, off, unsafe.Sizeof(*d1)) == 0, vfSum(base, off, sizeExt) == 0)
		hit := zzverif.And(m, valid)
		a := zzverif.IteU64(rev == 0, uint64(d1.RSDTAddr), d2.XSDTAddr)
		wantAddr = uintptr(zzverif.IteU64(hit, a, uint64(wantAddr)))
		wantX = zzverif.IteBool(hit, rev != 0, wantX)
		found = zzverif.Or(found, hit)
	}
	if err != nil {
		zzverif.Reach("missing")
		zzverif.Assert(err == errMissingRSDP, "error identity")
		zzverif.Assert(!found, "the root pointer is reported missing only if no slot holds a checksum-valid descriptor")
		return
	}
	zzverif.Reach("found")
	zzverif.Assert(found, "a root pointer is accepted only if its checksum is valid")
	zzverif.Assert(addr == wantAddr, "root table address of the first valid descriptor: 32-bit root for revision 0, 64-bit root otherwise")
	zzverif.Assert(useX == wantX, "XSDT is used exactly for revisions other than 0")
}

const (
	vfRootOff = uintptr(0)
	vfSlotOff = uintptr(128)
	vfSlotLen = uintptr(44) // 36-byte header + 8 payload bytes
	vfFadtOff = uintptr(512)
	vfFwCap   = uintptr(2*4096 - 20 + 44)
)

func vfHdr(base, off uintptr) *table.SDTHeader { return (*table.SDTHeader)(unsafe.Pointer(base + off)) }

// Enumeration: a table is registered under its signature iff its bytes sum to zero; bad tables are
// reported and skipped; a checksum-valid FADT additionally registers the DSDT it points to.
//
//verif:split 4
func Verif_C14_enumerate() {
	ne := zzverif.Param("tables", 1, 3)
	buf := zzverif.Region("fw", vfFwBase, vfFwCap, 1)
	base := uintptr(unsafe.Pointer(&buf[0]))
	_ = vfSeams()
	// the DSDT slot is alone in its frame: at the start of the second page, or 20 bytes before the end of it
	// (so that its header and its body cross into the third page)
	// or, third placement, in a region of its own at a 4 GiB-aligned address (a 64-bit pointer whose low half is zero)
	place := zzverif.Choice("dsdt-placement", 3)
	crossing := place == 1
	dsdtAddr := base + 4096
	switch place {
	case 1:
		dsdtAddr = base + 2*4096 - 20
	case 2:
		hi := zzverif.Region("fw-high", vfFwHighBase, vfSlotLen, 1)
		dsdtAddr = uintptr(unsafe.Pointer(&hi[0]))
	}
	useX := zzverif.Choice("xsdt", 2) == 1
	withFadt := zzverif.Choice("fadt", 2) == 1
	nl := ne
	if withFadt {
		nl++
	}
	entSize := uintptr(4)
	if useX {
		entSize = 8
	}
	rootLen := 36 + entSize*uintptr(nl)
	root := vfHdr(base, vfRootOff)
	root.Length = uint32(rootLen) // lengths are concrete in this layout (written, not assumed, so that checksum loops have concrete trip counts)
	fadtLen := unsafe.Sizeof(table.FADT{})
	// listed addresses: the ne plain slots in a symbolic order, the FADT (if any) at a symbolic position
	var slotOf [4]int
	perm := zzverif.Choice("order", 2)
	fpos := 0
	if withFadt {
		fpos = zzverif.Choice("fadtpos", nl)
	}
	k := 0
	for j := 0; j < nl; j++ {
		if withFadt && j == fpos {
			slotOf[j] = -1
			continue
		}
		s := k
		if perm == 1 {
			s = ne - 1 - k
		}
		slotOf[j] = s
		k++
	}
	for j := 0; j < nl; j++ {
		want := uint64(base + vfSlotOff + 64*uintptr(slotOf[j]))
		if slotOf[j] < 0 {
			want = uint64(base + vfFadtOff)
		}
		e := base + vfRootOff + 36 + entSize*uintptr(j)
		// entries are written (not assumed) so that table addresses are concrete on every path
		if useX {
			*(*uint64)(unsafe.Pointer(e)) = want
		} else {
			*(*uint32)(unsafe.Pointer(e)) = uint32(want)
		}
	}
	fadtSig := [4]byte{'F', 'A', 'C', 'P'}
	for s := 0; s < ne; s++ {
		h := vfHdr(base, vfSlotOff+64*uintptr(s))
		h.Length = uint32(vfSlotLen)
		zzverif.Assume(h.Signature != fadtSig)
		for t := 0; t < s; t++ {
			zzverif.Assume(h.Signature != vfHdr(base, vfSlotOff+64*uintptr(t)).Signature)
		}
	}
	var dsdtPtr64 uint64
	var dsdtPtr32 uint32
	if withFadt {
		f := (*table.FADT)(unsafe.Pointer(base + vfFadtOff))
		zzverif.Assume(f.Signature == fadtSig)
		f.Length = uint32(fadtLen)
		if zzverif.Tier() == 0 {
			// quick tier: FADT fields other than the header and the DSDT pointers are zero (cheaper checksum terms)
			for o := unsafe.Sizeof(table.SDTHeader{}) + 8; o < fadtLen; o++ {
				*(*uint8)(unsafe.Pointer(base + vfFadtOff + o)) = 0
			}
		}
		// each DSDT pointer is either absent (0) or designates the DSDT slot; at least one is present
		ptrs := zzverif.Choice("dsdtptrs", 4)
		if place == 2 && ptrs != 3 {
			ptrs = 1 // above 4 GiB only the 64-bit pointer can designate the table
		}
		switch ptrs {
		case 0:
			f.Dsdt, f.Ext.Dsdt = uint32(dsdtAddr), 0
		case 1:
			// only the 64-bit pointer: legal on ACPI 2+ firmware only (older FADTs have no X_DSDT field)
			zzverif.Assume(root.Revision >= 2)
			f.Dsdt, f.Ext.Dsdt = 0, uint64(dsdtAddr)
		case 2:
			f.Dsdt, f.Ext.Dsdt = uint32(dsdtAddr), uint64(dsdtAddr)
		case 3:
			// the FADT as firmware lays it out (ACPI 2.0+, packed): X_DSDT is the 8 bytes at offset 140; the Go struct
			// puts Ext.Dsdt at offset 152 (GenericAddress is padded to 16 bytes, BootArchitectureFlags is misplaced).
			// KF-C14-4: the driver reads the 64-bit DSDT pointer from the wrong offset.
			zzverif.Assume(root.Revision >= 2)
			f.Dsdt, f.Ext.Dsdt = 0, 0
			*(*uint64)(unsafe.Pointer(base + vfFadtOff + 140)) = uint64(dsdtAddr)
			zzverif.Known("KF-C14-4", true)
		}
		dsdtPtr32, dsdtPtr64 = f.Dsdt, f.Ext.Dsdt
		if ptrs == 3 {
			dsdtPtr64 = uint64(dsdtAddr)
		}
		d := vfHdr(dsdtAddr, 0)
		d.Length = uint32(vfSlotLen)
		zzverif.Assume(d.Signature != fadtSig)
		for t := 0; t < ne; t++ {
			zzverif.Assume(d.Signature != vfHdr(base, vfSlotOff+64*uintptr(t)).Signature)
		}
	}
	// KF-C14-1 (fixed): revision >= 2 root with a FADT that only carries the 32-bit DSDT pointer
	drv := &acpiDriver{rsdtAddr: base + vfRootOff, useXSDT: useX}
	vfTabs = []vfTab{{addr: dsdtAddr, length: vfSlotLen}}
	var w vfCount
	var err *kernel.Error
	panicked := zzverif.Catch(func() { err = drv.DriverInit(&w) })
	zzverif.Assert(!panicked, "table enumeration never crashes")
	if panicked {
		return
	}
	rootValid := vfSum(base, vfRootOff, rootLen) == 0
	if err != nil {
		zzverif.Reach("root-rejected")
		zzverif.Assert(err == errTableChecksumMismatch, "error identity")
		zzverif.Assert(!rootValid, "enumeration fails only when the root table itself is corrupt")
		return
	}
	zzverif.Reach("enumerated")
	zzverif.Assert(rootValid, "a corrupt root table is not followed")
	bad := 0
	expect := 0
	for s := 0; s < ne; s++ {
		off := vfSlotOff + 64*uintptr(s)
		h := vfHdr(base, off)
		valid := vfSum(base, off, vfSlotLen) == 0
		got, ok := drv.tableMap[string(h.Signature[:])]
		zzverif.Assert(ok == valid, "a listed table is registered under its signature iff its bytes sum to zero")
		if ok {
			zzverif.Assert(got == h, "registered entry points at the table")
			expect++
		} else {
			bad++
		}
	}
	if withFadt {
		fvalid := vfSum(base, vfFadtOff, fadtLen) == 0
		got, ok := drv.tableMap["FACP"]
		zzverif.Assert(ok == fvalid, "the FADT is registered iff its checksum is valid")
		if ok {
			zzverif.Assert(got == vfHdr(base, vfFadtOff), "FADT entry points at the table")
			expect++
			// which pointer designates the DSDT: 32-bit for revision < 2 roots, otherwise the 64-bit one (32-bit when that is zero)
			use64 := zzverif.And(root.Revision >= 2, dsdtPtr64 != 0)
			ptr := zzverif.IteU64(use64, dsdtPtr64, uint64(dsdtPtr32))
			d := vfHdr(dsdtAddr, 0)
			dvalid := vfSum(dsdtAddr, 0, vfSlotLen) == 0
			dgot, dok := drv.tableMap[string(d.Signature[:])]
			if ptr != 0 {
				zzverif.Reach("dsdt")
				// what the driver asked to have mapped before reading the header, and before summing the table,
				// must reach the end of what it then read.
				// KF-C14-2: mapACPITable asks for Length bytes from the start of the frame and ignores the table's
				// offset inside its first page, so the tail of a table that crosses a page boundary is never mapped.
				zzverif.Known("KF-C14-2", crossing)
				t := vfTabs[0]
				zzverif.Assert(zzverif.And(t.calls >= 1, t.firstEnd >= t.addr+36), "the mapping requested before a table header is read covers the header")
				zzverif.Assert(zzverif.And(t.calls >= 2, t.mappedEnd >= t.addr+t.length), "the mapping requested before a table is checksummed covers the whole table")
				zzverif.Assert(dok == dvalid, "the DSDT a valid FADT points to is registered iff its bytes sum to zero")
				if dok {
					zzverif.Assert(dgot == d, "DSDT entry points at the table")
					expect++
				} else {
					bad++
				}
			}
		} else {
			bad++
		}
	}
	zzverif.Assert(len(drv.tableMap) == expect, "nothing else is registered")
	zzverif.Assert(zzverif.Or(bad == 0, w.n > 0), "tables with a bad checksum are reported")
}
