//go:build verif

package device

// VerifResetDrivers empties the driver registration list (harness set-up only).
func VerifResetDrivers() { registeredDrivers = nil }
