//go:build verif

//verif:bounds information block of T tags (quick 2, thorough 3) plus the end tag; tag types, sizes (8..40 bytes) and all payload bytes symbolic; block capacity 256 bytes with a symbolic accessible limit equal to the block's own end (any read beyond it is a violation); huge_tag: a sparse block of a little over 2 GiB whose first tag has size 0x7ffffff0 / 0x7ffffff9 / 0x80000000
//verif:assumes well-formed block: each tag size >= 8, next tag at the 8-aligned offset, end tag (type 0, size 8) last; A-ADDR: block at the 8-aligned constant address 0x20000000
package multiboot

import (
	"unsafe"

	"github.com/ProjectSerenity/firefly/kernel/zzverif"
)

const vfBase = uintptr(0x20000000)
const vfCap = 256

func vfLE32(base, off uintptr) uint32 { return *(*uint32)(unsafe.Pointer(base + off)) }
func vfLE64(base, off uintptr) uint64 { return *(*uint64)(unsafe.Pointer(base + off)) }
func vfLE16(base, off uintptr) uint16 { return *(*uint16)(unsafe.Pointer(base + off)) }
func vfLE8(base, off uintptr) uint8   { return *(*uint8)(unsafe.Pointer(base + off)) }

type vfBlock struct {
	base uintptr
	nt   int
	off  [4]uintptr // offset of tag i (header)
	typ  [4]uint32
	size [4]uintptr
	end  uintptr // offset just past the end tag
}

// vfLayout declares the block and derives its layout from symbolic header fields.
func vfLayout(nt int) *vfBlock {
	buf := zzverif.Region("mb", vfBase, vfCap, 3)
	b := &vfBlock{base: uintptr(unsafe.Pointer(&buf[0])), nt: nt}
	off := uintptr(8)
	for i := 0; i < nt; i++ {
		b.off[i] = off
		b.typ[i] = vfLE32(b.base, off)
		b.size[i] = uintptr(vfLE32(b.base, off+4))
		zzverif.Assume(b.typ[i] != 0)
		zzverif.Assume(zzverif.And(b.size[i] >= 8, b.size[i] <= 40))
		off += (b.size[i] + 7) &^ 7
	}
	zzverif.Assume(zzverif.And(vfLE32(b.base, off) == 0, vfLE32(b.base, off+4) == 8))
	b.end = off + 8
	zzverif.Assume(uintptr(vfLE32(b.base, 0)) == b.end) // total_size field
	return b
}

// seal makes everything past the block's end inaccessible and points the package at the block.
func (b *vfBlock) seal() {
	zzverif.Limit("mb", b.end)
	infoData = b.base
}

// first returns the index of the first tag of type t, or -1.
func (b *vfBlock) first(t uint32) int {
	for i := 0; i < b.nt; i++ {
		if b.typ[i] == t {
			return i
		}
	}
	return -1
}

func Verif_C10_find_tag() {
	b := vfLayout(zzverif.Param("tags", 2, 3))
	want := zzverif.U32("wanted")
	zzverif.Assume(want != 0)
	b.seal()
	ptr, size := findTagByType(tagType(want))
	i := b.first(want)
	if i < 0 {
		zzverif.Reach("absent")
		zzverif.Assert(zzverif.And(ptr == 0, size == 0), "an absent tag yields (0,0)")
		return
	}
	zzverif.Reach("present")
	zzverif.Assert(ptr == b.base+b.off[i]+8, "payload pointer of the first tag of the wanted type")
	zzverif.Assert(uintptr(size) == b.size[i]-8, "payload length excludes the 8-byte header")
}

type vfRegion struct {
	addr, length uint64
	typ          uint32
}

// Memory map: entry size 24/32/40, up to n entries, every 32-bit type; early stop.
func Verif_C10_memmap() {
	b := vfLayout(zzverif.Param("tags", 1, 2))
	es := uintptr(24 + 8*zzverif.Choice("entrysize", 3))
	i := b.first(6)
	n := 0
	if i >= 0 {
		zzverif.Assume(uintptr(vfLE32(b.base, b.off[i]+8)) == es)
		n = zzverif.Choice("entries", 2)
		zzverif.Assume(b.size[i] == 16+es*uintptr(n))
	}
	// encoded values, read before the package rewrites unknown types in place
	var enc [2]vfRegion
	for k := 0; k < n; k++ {
		eo := b.off[i] + 16 + es*uintptr(k)
		enc[k] = vfRegion{vfLE64(b.base, eo), vfLE64(b.base, eo+8), vfLE32(b.base, eo+16)}
	}
	stopAt := zzverif.Int("stopAt")
	b.seal()
	var got [2]vfRegion
	count := 0
	VisitMemRegions(func(e *MemoryMapEntry) bool {
		if count < 2 {
			got[count] = vfRegion{e.PhysAddress, e.Length, uint32(e.Type)}
		}
		count++
		return count-1 != stopAt
	})
	if i < 0 {
		zzverif.Reach("no-tag")
		zzverif.Assert(count == 0, "no memory-map tag: visitor never called")
		return
	}
	exp := n
	if stopAt >= 0 && stopAt < n {
		exp = stopAt + 1
	}
	zzverif.Assert(count == exp, "visitor called once per entry, stopping when it returns false")
	for k := 0; k < exp; k++ {
		zzverif.Reach("entry")
		zzverif.Assert(got[k].addr == enc[k].addr, "region address decoded")
		zzverif.Assert(got[k].length == enc[k].length, "region length decoded")
		t := enc[k].typ
		want := zzverif.IteU32(zzverif.And(t >= 1, t <= 4), t, 2)
		zzverif.Assert(got[k].typ == want, "types outside the defined set are reported as reserved")
	}
}

func Verif_C10_framebuffer() {
	b := vfLayout(zzverif.Param("tags", 1, 2))
	i := b.first(8)
	if i >= 0 {
		zzverif.Assume(b.size[i] >= 8+22+6)
	}
	b.seal()
	info := GetFramebufferInfo()
	if i < 0 {
		zzverif.Reach("absent")
		zzverif.Assert(info == nil, "no framebuffer tag: nil")
		return
	}
	zzverif.Reach("present")
	zzverif.Assert(info != nil, "framebuffer tag present: info returned")
	if info == nil {
		return
	}
	p := b.off[i] + 8
	zzverif.Assert(info.PhysAddr == vfLE64(b.base, p), "framebuffer address")
	zzverif.Assert(info.Pitch == vfLE32(b.base, p+8), "pitch")
	zzverif.Assert(info.Width == vfLE32(b.base, p+12), "width")
	zzverif.Assert(info.Height == vfLE32(b.base, p+16), "height")
	zzverif.Assert(info.Bpp == vfLE8(b.base, p+20), "bpp")
	zzverif.Assert(uint8(info.Type) == vfLE8(b.base, p+21), "type")
	rgb := info.RGBColorInfo()
	if vfLE8(b.base, p+21) != 1 {
		zzverif.Reach("not-rgb")
		zzverif.Assert(rgb == nil, "colour layout only for RGB framebuffers")
		return
	}
	zzverif.Reach("rgb")
	zzverif.Assert(rgb != nil, "RGB framebuffer has a colour layout")
	if rgb == nil {
		return
	}
	zzverif.Assert(rgb.RedPosition == vfLE8(b.base, p+24), "red position")
	zzverif.Assert(rgb.RedMaskSize == vfLE8(b.base, p+25), "red size")
	zzverif.Assert(rgb.GreenPosition == vfLE8(b.base, p+26), "green position")
	zzverif.Assert(rgb.GreenMaskSize == vfLE8(b.base, p+27), "green size")
	zzverif.Assert(rgb.BluePosition == vfLE8(b.base, p+28), "blue position")
	zzverif.Assert(rgb.BlueMaskSize == vfLE8(b.base, p+29), "blue size")
}

const vfStrBase = uintptr(0x20100000)
const vfStrCap = 16

type vfSec struct {
	nameOff  uint32
	flags    uint64
	addr     uint64
	size     uint64
	nameLen  int
	nameByte [4]byte
}

// ELF sections: tag 9 with ns 64-byte section headers, the string table is a second region.
//
//verif:bounds 0..ns section headers (quick 2, thorough 3); names NUL-terminated within 3 bytes inside a 16-byte string table; flags/address/size/name offset symbolic; string-table section index symbolic
func Verif_C10_elf() {
	ns := zzverif.Choice("sections", zzverif.Param("maxsections", 2, 3)+1) // 0 .. max section headers
	tagSize := uintptr(20 + 64*ns)
	total := 8 + ((tagSize + 7) &^ 7) + 8
	buf := zzverif.Region("mb", vfBase, total, 3)
	base := uintptr(unsafe.Pointer(&buf[0]))
	str := zzverif.Region("strtab", vfStrBase, vfStrCap, 1)
	strBase := uintptr(unsafe.Pointer(&str[0]))
	zzverif.Assume(vfLE32(base, 8) == 9)
	zzverif.Assume(uintptr(vfLE32(base, 12)) == tagSize)
	zzverif.Assume(int(vfLE32(base, 16)) == ns) // num
	zzverif.Assume(vfLE32(base, 20) == 64)      // entsize
	shndx := vfLE32(base, 24)
	zzverif.Assume(zzverif.Or(int(shndx) < ns, zzverif.And(ns == 0, shndx == 0)))
	endOff := 8 + ((tagSize + 7) &^ 7)
	zzverif.Assume(zzverif.And(vfLE32(base, endOff) == 0, vfLE32(base, endOff+4) == 8))
	hdr := func(i int) uintptr { return 28 + uintptr(64*i) }
	// the string-table section's address field designates the strtab region
	for i := 0; i < ns; i++ {
		zzverif.Assume(zzverif.Or(int(shndx) != i, vfLE64(base, hdr(i)+16) == uint64(strBase)))
	}
	var secs [3]vfSec
	for i := 0; i < ns; i++ {
		h := hdr(i)
		s := &secs[i]
		s.nameOff = vfLE32(base, h)
		s.flags = vfLE64(base, h+8)
		s.addr = vfLE64(base, h+16)
		s.size = vfLE64(base, h+32)
		zzverif.Assume(s.nameOff <= vfStrCap-4)
		// name: NUL within 3 bytes
		s.nameLen = -1
		for k := 0; k < 4; k++ {
			b := str[uintptr(s.nameOff)+uintptr(k)]
			if b == 0 {
				s.nameLen = k
				break
			}
			s.nameByte[k] = b
		}
		zzverif.Assume(s.nameLen >= 0)
	}
	infoData = base
	count := 0
	exp := 0
	VisitElfSections(func(name string, flags ElfSectionFlag, address uintptr, size uint64) {
		// advance to the next non-empty section of the oracle
		for exp < ns && secs[exp].size == 0 {
			exp++
		}
		zzverif.Assert(exp < ns, "visitor called only for encoded, non-empty sections")
		if exp >= ns {
			return
		}
		s := &secs[exp]
		zzverif.Reach("section")
		zzverif.Assert(len(name) == s.nameLen, "section name length up to the NUL")
		if len(name) == s.nameLen {
			for k := 0; k < s.nameLen; k++ {
				zzverif.Assert(name[k] == s.nameByte[k], "section name bytes")
			}
		}
		zzverif.Assert(uint64(flags) == s.flags&0xffffffff, "section flags")
		zzverif.Assert(uint64(address) == s.addr, "section address")
		zzverif.Assert(size == s.size, "section size")
		exp++
		count++
	})
	nonEmpty := 0
	for i := 0; i < ns; i++ {
		if secs[i].size != 0 {
			nonEmpty++
		}
	}
	zzverif.Assert(count == nonEmpty, "every non-empty section is visited exactly once, in order")
}

func vfIsSpace(b byte) bool {
	return b == ' ' || b == '\t' || b == '\n' || b == '\v' || b == '\f' || b == '\r'
}

// Command line: tag 1 holding an ASCII NUL-terminated string of n bytes.
//
//verif:bounds command line of exactly n bytes, n in 0..N (quick 3, thorough 5), each byte any non-NUL ASCII value; words with two or more '=' are unspecified and not asserted
//verif:assumes ASCII (bytes < 0x80): the UTF-8 path of strings.Fields needs the unicode tables
func Verif_C10_cmdline() {
	n := zzverif.Choice("len", zzverif.Param("cmdlen", 3, 5)+1)
	tagSize := uintptr(8 + n + 1)
	endOff := 8 + ((tagSize + 7) &^ 7)
	buf := zzverif.Region("mb", vfBase, endOff+8, 3)
	base := uintptr(unsafe.Pointer(&buf[0]))
	zzverif.Assume(vfLE32(base, 8) == 1)
	zzverif.Assume(uintptr(vfLE32(base, 12)) == tagSize)
	zzverif.Assume(zzverif.And(vfLE32(base, endOff) == 0, vfLE32(base, endOff+4) == 8))
	var text [8]byte
	for i := 0; i < n; i++ {
		text[i] = buf[16+i]
		zzverif.Assume(zzverif.And(text[i] != 0, text[i] < 0x80))
	}
	zzverif.Assume(buf[16+n] == 0)
	infoData = base
	cmdLineKV = nil
	got := GetBootCmdLine()

	// reference splitter
	type kv struct{ ks, ke, vs, ve int }
	var ref [4]kv
	nref := 0
	unspecified := false
	i := 0
	for i < n {
		for i < n && vfIsSpace(text[i]) {
			i++
		}
		if i >= n {
			break
		}
		ws := i
		eq, neq := -1, 0
		for i < n && !vfIsSpace(text[i]) {
			if text[i] == '=' {
				if eq < 0 {
					eq = i
				}
				neq++
			}
			i++
		}
		switch neq {
		case 0:
			ref[nref] = kv{ws, i, ws, i}
			nref++
		case 1:
			ref[nref] = kv{ws, eq, eq + 1, i}
			nref++
		default:
			unspecified = true
		}
	}
	if unspecified {
		zzverif.Reach("unspecified")
		return
	}
	zzverif.Reach("specified")
	// every reference pair is present with the value of its last occurrence
	for a := 0; a < nref; a++ {
		last := a
		for b := a + 1; b < nref; b++ {
			if ref[b].ke-ref[b].ks == ref[a].ke-ref[a].ks {
				same := true
				for k := 0; k < ref[a].ke-ref[a].ks; k++ {
					if text[ref[a].ks+k] != text[ref[b].ks+k] {
						same = false
					}
				}
				if same {
					last = b
				}
			}
		}
		key := string(text[ref[a].ks:ref[a].ke])
		v, ok := got[key]
		zzverif.Assert(ok, "every key=value pair and bare flag of the command line is reported")
		if ok {
			want := string(text[ref[last].vs:ref[last].ve])
			zzverif.Assert(v == want, "reported value is the encoded value")
		}
	}
	// and nothing else: the number of distinct keys matches
	distinct := 0
	for a := 0; a < nref; a++ {
		dup := false
		for b := 0; b < a; b++ {
			if ref[b].ke-ref[b].ks == ref[a].ke-ref[a].ks {
				same := true
				for k := 0; k < ref[a].ke-ref[a].ks; k++ {
					if text[ref[a].ks+k] != text[ref[b].ks+k] {
						same = false
					}
				}
				if same {
					dup = true
				}
			}
		}
		if !dup {
			distinct++
		}
	}
	zzverif.Assert(len(got) == distinct, "nothing but the encoded entries is reported")
	// memoised
	infoData = 0 // a second scan of the block would now dereference a null-based address
	again := GetBootCmdLine()
	zzverif.Assert(len(again) == len(got), "second call returns the memoised result without touching the block")
}

// A tag of about 2 GiB (sizes on both sides of 2^31) in front of the memory-map tag: the walk must advance by the
// tag's size rounded up to 8 and find the tag that follows; the block is a sparse raw region of a little over 2 GiB.
func Verif_C10_huge_tag() {
	huge := [3]uintptr{0x7ffffff0, 0x7ffffff9, 0x80000000}[zzverif.Choice("hugesize", 3)]
	adv := (huge + 7) &^ 7
	total := 8 + adv + 16 + 8
	buf := zzverif.Region("mbhuge", vfBase, total, 1)
	base := uintptr(unsafe.Pointer(&buf[0]))
	put := func(off uintptr, v uint32) { *(*uint32)(unsafe.Pointer(base + off)) = v }
	put(0, uint32(total))
	put(4, 0)
	put(8, 21) // a tag type the kernel does not know
	put(12, uint32(huge))
	put(8+adv, 6) // memory map: entry size 24, version 0, no entries
	put(8+adv+4, 16)
	put(8+adv+8, 24)
	put(8+adv+12, 0)
	put(8+adv+16, 0) // end tag
	put(8+adv+20, 8)
	infoData = base
	var ptr uintptr
	var size uint32
	panicked := zzverif.Catch(func() { ptr, size = findTagByType(tagType(6)) })
	zzverif.Assert(!panicked, "the tag walk stays inside the block")
	if panicked {
		return
	}
	zzverif.Assert(zzverif.And(ptr == base+8+adv+8, size == 8), "a tag behind a very large tag is found at its place")
	zzverif.Reach("found")
}
