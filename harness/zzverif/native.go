//go:build verif

// Package zzverif, native side: the same API as sym.go with real bodies. A
// replay file (VERIF_REPLAY) supplies the solver model's values in the order
// the harness asks for them.
package zzverif

import (
	"encoding/hex"
	"encoding/json"
	"fmt"
	"os"
	"strings"
	"syscall"
	"unsafe"
)

type replayInput struct {
	Label string `json:"label"`
	Name  string `json:"name"`
	Width int    `json:"width"`
	Value uint64 `json:"value"`
}

type replayFile struct {
	Harness string            `json:"harness"`
	Kind    string            `json:"kind"`
	Site    string            `json:"site"`
	Inputs  []replayInput     `json:"inputs"`
	Regions map[string]string `json:"regions"`
	Limits  map[string]uint64 `json:"limits"`
	Tier    string            `json:"tier"`
}

type assertFail struct{ site string }
type assumeFail struct{}
type diverged struct{ why string }

var (
	rf      replayFile
	next    int
	regions = map[string]*region{}
	mapped  = map[uintptr]bool{}
)

type region struct {
	base  uintptr
	cap   uintptr
	limit uintptr
}

// RunReplay is called by the generated TestVerifReplay.
func RunReplay(hs map[string]func()) {
	path := os.Getenv("VERIF_REPLAY")
	if path == "" {
		fmt.Println("VERIF-REPLAY: SKIPPED (no VERIF_REPLAY)")
		return
	}
	b, err := os.ReadFile(path)
	if err != nil {
		fmt.Println("VERIF-REPLAY: ERROR", err)
		return
	}
	if err := json.Unmarshal(b, &rf); err != nil {
		fmt.Println("VERIF-REPLAY: ERROR", err)
		return
	}
	f, ok := hs[rf.Harness]
	if !ok {
		fmt.Println("VERIF-REPLAY: ERROR unknown harness", rf.Harness)
		return
	}
	defer func() {
		r := recover()
		switch e := r.(type) {
		case nil:
			fmt.Println("VERIF-REPLAY: COMPLETED")
		case assertFail:
			fmt.Printf("VERIF-REPLAY: ASSERT-FAILED site=%s\n", e.site)
		case assumeFail:
			fmt.Println("VERIF-REPLAY: ASSUME-FAILED")
		case diverged:
			fmt.Println("VERIF-REPLAY: DIVERGED", e.why)
		default:
			fmt.Printf("VERIF-REPLAY: PANIC %v\n", r)
		}
	}()
	f()
}

func pop(label string, width int) uint64 {
	if next >= len(rf.Inputs) {
		panic(diverged{"ran out of inputs at " + label})
	}
	in := rf.Inputs[next]
	next++
	if in.Label != label {
		panic(diverged{fmt.Sprintf("input %d: want label %q, replay has %q", next-1, label, in.Label)})
	}
	return in.Value
}

func U8(label string) uint8        { return uint8(pop(label, 8)) }
func U16(label string) uint16      { return uint16(pop(label, 16)) }
func U32(label string) uint32      { return uint32(pop(label, 32)) }
func U64(label string) uint64      { return pop(label, 64) }
func Int(label string) int         { return int(pop(label, 64)) }
func Uintptr(label string) uintptr { return uintptr(pop(label, 64)) }
func Bool(label string) bool       { return pop(label, 8) == 1 }
func Choice(label string, n int) int {
	if n <= 1 {
		return 0
	}
	return int(pop(label, 8))
}
func Split(label string, x uint64, max int) uint64    { return x }
func Concretize(label string, x uint64, n int) uint64 { return x }

func Bytes(label string, n int) []byte {
	b := make([]byte, n)
	for i := range b {
		b[i] = uint8(pop(label, 8))
	}
	return b
}

const pageSize = 4096

func mapPages(lo, hi uintptr) {
	for p := lo &^ (pageSize - 1); p < hi; p += pageSize {
		if mapped[p] {
			continue
		}
		const mapFixedNoReplace = 0x100000
		r, _, e := syscall.Syscall6(syscall.SYS_MMAP, p, pageSize, syscall.PROT_READ|syscall.PROT_WRITE,
			syscall.MAP_PRIVATE|syscall.MAP_ANONYMOUS|mapFixedNoReplace, ^uintptr(0), 0)
		if e != 0 || r != p {
			panic(diverged{fmt.Sprintf("cannot map replay region page %#x: %v", p, e)})
		}
		mapped[p] = true
	}
}

// Region maps raw memory at base. When the replay file records the region's
// final accessible limit, the region is shifted so that the first inaccessible
// byte is the start of an unmapped page (alignment modulo 8 preserved).
func Region(label string, base, capacity uintptr, init int) []byte {
	r := &region{base: base, cap: capacity, limit: capacity}
	if l, ok := rf.Limits[label]; ok && uintptr(l) < capacity {
		r.limit = uintptr(l)
	}
	if init&2 != 0 && r.limit%8 == 0 {
		// guard placement: the first inaccessible byte is the start of an unmapped page
		end := (base + r.limit + pageSize - 1) &^ (pageSize - 1)
		r.base = end - r.limit
		mapPages(r.base, end)
	} else {
		mapPages(base, base+capacity)
	}
	regions[label] = r
	n := r.cap
	if r.limit < n {
		n = r.limit
	}
	buf := rawSlice(r.base, n)
	if hx, ok := rf.Regions[label]; ok {
		if strings.HasPrefix(hx, "sparse:") {
			// huge regions: offset=byte pairs, everything else zero (fresh anonymous pages)
			for _, kv := range strings.Split(hx[len("sparse:"):], ",") {
				var off uint64
				var b uint8
				if _, err := fmt.Sscanf(kv, "%x=%x", &off, &b); err == nil && off < uint64(len(buf)) {
					buf[off] = b
				}
			}
		} else {
			data, _ := hex.DecodeString(hx)
			copy(buf, data)
		}
	}
	return buf
}

type sliceHeader struct {
	data uintptr
	len  int
	cap  int
}

func rawSlice(base, n uintptr) []byte {
	h := sliceHeader{base, int(n), int(n)}
	return *(*[]byte)(unsafe.Pointer(&h))
}

// Havoc copies the model's bytes for this label over the n bytes at p.
func Havoc(p unsafe.Pointer, n uintptr, label string) {
	buf := rawSlice(uintptr(p), n)
	for i := range buf {
		buf[i] = 0
	}
	if hx, ok := rf.Regions[label]; ok {
		data, _ := hex.DecodeString(hx)
		// the model is indexed by offset inside the object: p may not be at offset 0
		off := int(havocOffset[label])
		if off < len(data) {
			copy(buf, data[off:])
		}
	}
}

var havocOffset = map[string]uintptr{}

func Limit(label string, n uintptr) {
	if r, ok := regions[label]; ok && n < r.limit {
		r.limit = n
	}
}

func InRegion(p unsafe.Pointer, n uintptr, label string) bool {
	r, ok := regions[label]
	if !ok {
		return false
	}
	a := uintptr(p)
	return a >= r.base && a+n >= a && a+n <= r.base+r.limit
}

func Assume(c bool) {
	if !c {
		panic(assumeFail{})
	}
}

func Assert(c bool, site string) {
	if !c {
		panic(assertFail{site})
	}
}

func And(a, b bool) bool     { return a && b }
func Or(a, b bool) bool      { return a || b }
func Not(a bool) bool        { return !a }
func Implies(a, b bool) bool { return !a || b }
func IteU64(c bool, a, b uint64) uint64 {
	if c {
		return a
	}
	return b
}
func IteU32(c bool, a, b uint32) uint32 {
	if c {
		return a
	}
	return b
}
func IteU16(c bool, a, b uint16) uint16 {
	if c {
		return a
	}
	return b
}
func IteU8(c bool, a, b uint8) uint8 {
	if c {
		return a
	}
	return b
}
func IteInt(c bool, a, b int) int {
	if c {
		return a
	}
	return b
}
func IteBool(c bool, a, b bool) bool {
	if c {
		return a
	}
	return b
}

func Catch(f func()) (panicked bool) {
	defer func() {
		if r := recover(); r != nil {
			switch r.(type) {
			case assertFail, assumeFail, diverged:
				panic(r)
			}
			panicked = true
		}
	}()
	f()
	return false
}

func Reach(tag string)               {}
func Known(id string, c bool)        {}
func Observe(label string, v uint64) { fmt.Printf("VERIF-OBS %s=%#x\n", label, v) }

func Tier() int {
	if rf.Tier == "thorough" {
		return 1
	}
	return 0
}

func Param(name string, quick, thorough int) int {
	if rf.Tier == "thorough" {
		return thorough
	}
	return quick
}

func WatchLocked(p unsafe.Pointer, n uintptr, lock unsafe.Pointer) {}
func Unwatch()                                                     {}
