//go:build verif

// Package zzverif is the harness-side API of the /verif symbolic executor.
// This file holds the bodyless declarations used when the harness is encoded;
// native.go holds the real bodies used when a counterexample is replayed.
package zzverif

import "unsafe"

// inputs
func U8(label string) uint8
func U16(label string) uint16
func U32(label string) uint32
func U64(label string) uint64
func Int(label string) int
func Uintptr(label string) uintptr
func Bool(label string) bool
func Bytes(label string, n int) []byte
func Choice(label string, n int) int
func Split(label string, x uint64, max int) uint64

// Concretize forks over up to n feasible values of x (chosen by the solver); afterwards x stays symbolic.
func Concretize(label string, x uint64, n int) uint64

// raw memory standing for physical / firmware memory. init: 0 = zero-filled, 1 = arbitrary content,
// +2 = on native replay place the region so that its first inaccessible byte starts an unmapped page
func Region(label string, base, capacity uintptr, init int) []byte
func Limit(label string, n uintptr)

// Havoc gives the n bytes at p arbitrary content; the rest of the object keeps its value.
func Havoc(p unsafe.Pointer, n uintptr, label string)
func InRegion(p unsafe.Pointer, n uintptr, label string) bool

// logic
func Assume(c bool)
func Assert(c bool, site string)
func And(a, b bool) bool
func Or(a, b bool) bool
func Not(a bool) bool
func Implies(a, b bool) bool
func IteU64(c bool, a, b uint64) uint64
func IteU32(c bool, a, b uint32) uint32
func IteU16(c bool, a, b uint16) uint16
func IteU8(c bool, a, b uint8) uint8
func IteInt(c bool, a, b int) int
func IteBool(c bool, a, b bool) bool
func Catch(f func()) (panicked bool)
func Reach(tag string)
func Known(id string, c bool)
func Observe(label string, v uint64)

// tiers
func Tier() int // 0 quick, 1 thorough
func Param(name string, quick, thorough int) int

// monitors
func WatchLocked(p unsafe.Pointer, n uintptr, lock unsafe.Pointer)
func Unwatch()
