#!/bin/bash
# Runs the repository's own test-suite with the verif guard OFF (no tag, no
# overlay) and succeeds iff every test named in BASELINE.json's stable_pass
# passed. kernel/goruntime does not link with this Go release on the pinned
# tree and is not part of the baseline, so the raw exit status cannot be used.
export GOFLAGS=-mod=mod GOPROXY=off GOSUMDB=off GOTOOLCHAIN=local
out=$(mktemp)
for m in kernel kbuild; do
  (cd /repo/$m && go test -json -vet=off -count=1 -timeout 25m ./... 2>/dev/null) >> "$out"
done
python3 - "$out" <<'PY'
import json,sys
base=json.load(open('/root/.vp/BASELINE.json'))['stable_pass']
passed=set()
for line in open(sys.argv[1]):
    try: e=json.loads(line)
    except Exception: continue
    if e.get('Action')=='pass' and e.get('Test'):
        passed.add(e['Package']+'::'+e['Test'])
missing=[t for t in base if t not in passed]
print(f"baseline: {len(base)-len(missing)}/{len(base)} stable tests passed")
for t in missing[:20]: print("MISSING/FAILED:",t)
sys.exit(1 if missing else 0)
PY
rc=$?
rm -f "$out"
exit $rc
