#!/bin/bash
# Builds /verif/bin/vcheck from the engine module, offline.
set -e
export GOFLAGS=-mod=mod GOPROXY=off GOSUMDB=off GOTOOLCHAIN=local
cd /verif/engine
mkdir -p /verif/bin
go build -o /verif/bin/vcheck ./cmd/vcheck
echo "vcheck built"
