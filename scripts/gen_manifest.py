#!/usr/bin/env python3
"""Regenerates /verif/MANIFEST.json from the table below."""
import json, sys

CLAIMED = {
 # id: (level text, level note, design_ref)
 "C07": ("Bounded symbolic model checking of the real EarlyReserveRegion / MapRegion / IdentityMapRegion SSA: one reservation step from an arbitrary valid cursor for all 2^64 sizes (covers histories of any length by induction on the cursor invariant), and region mapping for sizes in [0,4 pages] and [2^64-8192,2^64-1] with the map callback failing at an arbitrary call.",
         "Trusts go/ssa, the gosym interpreter (validated by native replay of solver models), cvc5/z3; cursor invariant (aligned, <= tempMappingAddr) is assumed for the step and shown preserved; sizes between 4 pages and 2^64-8192 for the mapping loops are outside the bound.", "7 C07"),
}

NOT_APPLICABLE = {
 "C20": "FindRedirects is filepath.Walk + go/parser + ast.CommentMap + fmt over a source tree on disk; the inputs are directory trees and Go source text reached through OS calls, reflection and ~40k lines of standard library that the SSA executor cannot encode, and the non-reproducibility in question comes from runtime map-iteration randomisation, which is not a function of any solver-visible input. No bounded version is within reach of solver-based checking; see DESIGN.md 8.1.",
}
NOT_YET = "check not built yet in this revision of /verif (work in progress; see DESIGN.md 9)"

def main():
    props = [json.loads(l)["id"] for l in open("/verif/properties.jsonl")]
    checks = []
    for pid in props:
        if pid not in CLAIMED:
            continue
        text, note, ref = CLAIMED[pid]
        checks.append({
            "property_id": pid,
            "quick_cmd": f"/verif/bin/vcheck {pid} --tier quick",
            "thorough_cmd": f"/verif/bin/vcheck {pid} --tier thorough",
            "evidence_file": f"/verif/evidence/{pid}.json",
            "replay_cmd_template": "/verif/bin/vcheck --replay {path}",
            "engine": "gosym",
            "level_claimed": {"category": "model_checking", "text": text, "design_ref": "DESIGN.md section " + ref},
            "level_note": note,
            "technique": "solver-based bounded symbolic execution of go/ssa (SMT bit-vectors, cvc5/z3) with native replay of counterexamples",
        })
    na = []
    for pid in props:
        if pid in CLAIMED:
            continue
        na.append({"property_id": pid, "reason": NOT_APPLICABLE.get(pid, NOT_YET)})
    m = {
        "version": 1,
        "setup_cmd": "/verif/scripts/setup.sh",
        "hooks": {
            "guard": "verif",
            "enable": "harnesses and the zzverif support package are injected as overlay files (packages.Config.Overlay / go test -overlay) carrying //go:build verif; nothing is added to /repo",
            "baseline_off_cmd": "/verif/scripts/baseline_off.sh",
            "source_commits": [],
            "add_only": True,
        },
        "engines": [
            {"name": "gosym", "path": "/verif/engine", "serves_properties": sorted(p for p in CLAIMED if p != "C08"),
             "kind_free_text": "own symbolic executor for go/ssa -> SMT-LIB2 (QF_ABV), cvc5 incremental primary, z3/z3-new/cvc5 one-shot portfolio on timeout, native replay via go test -overlay"},
        ],
        "checks": checks,
        "not_applicable": na,
        "notes": "Exit codes of vcheck: 0 holds within bounds, 1 violation (with VIOLATION line, after native replay), 3 inconclusive (never on the registered bounds on the unchanged tree).",
    }
    json.dump(m, open("/verif/MANIFEST.json", "w"), indent=1)
    print("MANIFEST.json:", len(checks), "checks,", len(na), "not claimed")

main()
