#!/usr/bin/env python3
"""Regenerates /verif/MANIFEST.json from the table below."""
import json, sys

CLAIMED = {
 # id: (level text, level note, design_ref)
 "C07": ("Bounded symbolic model checking of the real EarlyReserveRegion / MapRegion / IdentityMapRegion SSA: one reservation step from an arbitrary valid cursor for all 2^64 sizes (covers histories of any length by induction on the cursor invariant), region mapping for sizes in [0,4 pages] and [2^64-8192,2^64-1] with the map callback failing at an arbitrary call, and the Go-runtime allocator hooks sysReserve / sysAlloc / sysMap of kernel/goruntime on top of the real EarlyReserveRegion (a reservation or allocation reported as made covers the requested size; exactly the needed pages are mapped).",
         "Trusts go/ssa, the gosym interpreter (validated by native replay of solver models), cvc5/z3; cursor invariant (aligned, <= tempMappingAddr) is assumed for the step and shown preserved; sizes between 4 pages and 2^64-8192 for the mapping loops are outside the bound; in package goruntime the file of body-less go:linkname declarations (not linkable with this toolchain) is replaced by empty stubs, both for the encoding and for the native replay.", "7 C07"),
}

CLAIMED.update({
 "C01": ("Bounded symbolic model checking of the real BitmapAllocator: one AllocFrame / FreeFrame step from an arbitrary state satisfying the representation invariant R (2-3 pools x 1-3 bitmap words, every word/counter/frame symbolic) - histories of any length follow by induction on R - plus the init lemma: the real bootMemAllocator + BitmapAllocator.init on a symbolic multiboot memory map establishes R with exactly the kernel-image and early-boot frames marked.",
         "Trusts go/ssa, gosym (validated by native replay), cvc5/z3. R is assumed for the step lemmas and shown established by init and preserved by each step; the arithmetic fact popcount(OR of distinct one-hot masks)=count is a paper step. Bounds: <=3 pools, <=192 frames per pool in the step lemmas; init lemma: 1 (quick) / 2 (thorough) memory-map entries of <=130 frames, <=2 early allocations; kfmt.Printf stubbed (symbolic-only).", "7 C01"),
 "C02": ("Bounded symbolic model checking of the real BootMemAllocator.AllocFrame: one allocation from an arbitrary valid allocator state over a symbolic memory map (2-3 entries, any address/length/type, unaligned and sub-page regions, kernel anywhere inside an available entry), plus replay determinism (k allocations, reset, k again).",
         "Pre(bootalloc) assumed and shown preserved; out-of-memory completeness is deliberately not asserted (the property states one direction only). Map entries <= 130 frames, addresses < 2^52.", "7 C02"),
 "C03": ("Same engine and state space as C01: init lemma (never crashes; totals agree with the bitmaps; exact marking), FreeFrame step (rejected frees change nothing, accepted free clears exactly one bit), AllocFrame step (thorough tier) and drain (exactly m successes then out-of-memory).",
         "As C01. The quick tier leaves the AllocFrame step lemma to C01's check (same harness body); thorough runs it here too.", "7 C03"),
 "C09": ("Lock-discipline monitor on the real AllocFrame/FreeFrame over the C01 state space: every access to the allocator's mutable shared state (bitmap words, per-pool freeCount, reservedPages, totalPages) happens while alloc.mutex is held, Acquire happens on a free lock (a second Acquire is reported as blocking forever), and the lock is free again on every return path. The same command then regenerates the C08 lock transition system from kernel/sync and discharges its quick queries (the mutex admits one holder), reported under C09. Together with the C01/C03 step lemmas this lifts sequential correctness to concurrent histories by reduction (argument in DESIGN.md, not machine-checked).",
         "Sequential symbolic execution with a byte-range lock monitor; concurrency itself is covered by the C08 transition-system check plus the reduction argument; x86-TSO assumptions as in C08. Violations found by the monitor have no native oracle and are reported on the symbolic evidence alone.", "7 C09"),
 "C10": ("Bounded symbolic model checking of the real multiboot decoder over a raw memory region with symbolic bytes and a symbolic accessible limit (any read past the block's own end is a violation): findTagByType (symbolic tag order/sizes, and a tag of about 2 GiB in a sparse region), VisitMemRegions (entry size 24/32/40, every 32-bit type, early stop), GetFramebufferInfo/RGBColorInfo, VisitElfSections (symbolic string table), GetBootCmdLine (real strings.Fields/Split from the standard library's SSA against a reference splitter).",
         "Well-formed blocks only (assumed layout); <=3 tags, <=3 sections, names <=3 bytes, command line <=5 ASCII bytes; block at a concrete 8-aligned address (A-ADDR).", "7 C10"),
})

CLAIMED.update({
 "C13": ("Bounded symbolic model checking of the real ObjectTree: one editing operation (newObject, append, appendAfter, detach, free) from an arbitrary well-formed tree state of K objects (every link field, live/freed flag and free-list head symbolic) - the post-state equals a reference list model and is well-formed again, so edit histories of any length follow by induction - plus Find on a fixed 8-node shape for every well-formed expression form (symbolic name segments, all prefix forms, from every scope) against an independent resolver, and for arbitrary byte strings (no crash, result is not-found or an existing node), and NumArgs/ArgAt against the list model.",
         "WF(tree) and the documented operand preconditions are assumed for the step (arguments live, appended object detached and not an ancestor, root never re-parented); K = 4 (quick) / 5 (thorough); lookups use one fixed tree shape with concrete node names; expressions of up to 7 arbitrary bytes.", "7 C13"),
 "C15": ("Bounded symbolic model checking of the real kfmt.fmtInt / Fprintf: every value of all eleven built-in integer types in base 8/10/16 (digits checked by Horner reconstruction; decimal decided through cvc5's integer encoding), padding for every int padLen, %s/%t/wrong-type markers, the whole format scanner over every format string of L bytes and over the 5-byte shape %<digit><verb>%<verb> against a reference formatter (inside the documented language exact equality, for every string no panic).",
         "Not decided: 'performs no heap allocation' (a property of the compiler's escape analysis, not of input/output behaviour). Bounds: pad harness values <= 8 bits, strings <= 3 bytes, widths in formats <= 2 digits, format length 3 (quick) / 4 (thorough), fixed argument lists.", "7 C15"),
 "C19": ("Bounded symbolic model checking of the real console drivers: VgaTextConsole Write/Fill/Scroll on grids up to 3x3 (4x3 thorough) with every cell and every 32-bit/8-bit argument symbolic, and VesaFbConsole Write/Fill/Scroll on a 2x2-cell grid with remainder row/column, pitch padding, logo offset, 8x2 and 9x2 synthetic fonts with symbolic glyph data, depth 8/16 (quick; Fill also 24) or 8/15/16/24/32 with symbolic colour masks (thorough); SetPaletteColor on a concrete checkerboard picture with a symbolic new colour; every framebuffer byte is compared with an independent pixel-level oracle; any access outside the buffer is a violation.",
         "Framebuffer = Go slice of exactly height*pitch bytes; in-grid coordinates are case-split (enumerated) and out-of-grid ones symbolic; characters < 4 with the synthetic 4-glyph fonts; a 32 bpp pixel counts as four bytes (RGBX layout checked by fb_pack32).", "7 C19"),
})

CLAIMED.update({
 "C17": ("Bounded symbolic model checking of the real tty.VT: one operation (WriteByte of any byte, Write of two bytes, SetCursorPosition with any 32-bit coordinates, SetState) from an arbitrary terminal state satisfying Inv(VT) on every geometry of an enumerated set, compared cell by cell (contents, scrollback, cursor, viewport, data offset) with an independent reference terminal; plus AttachTo from an arbitrary previous attachment as the init lemma. Histories of any length follow by induction on Inv(VT).",
         "Geometries enumerated (width x height x scrollback x tab width, including tab widths >= 128), everything else symbolic; Inv(VT) assumed for the pre-state and re-established by the equality with the reference; attached console is a reference grid console.", "7 C17"),
 "C18": ("Same step lemma as C17 with the sync invariant added: an active terminal's console shows exactly the viewport after every operation, an inactive terminal never touches the console, activation redraws, and attaching establishes the invariant (open known finding KF-C18-1: a terminal activated before it is attached never paints the console) - checked with a reference grid console (arbitrary cell colours) with the shipped VgaTextConsole (cell word = 0x0700|char), and with the shipped VesaFbConsole at 8 bpp over a symbolic byte framebuffer (every pixel of every cell = default foreground where the glyph bit of the viewport's character is set, default background elsewhere; logo row and padding bytes never touched).",
         "Framebuffer synchronisation at 8 bpp only, grid {1,2}x{1,2} cells in both tiers, synthetic 8x1 font of 256 glyphs (blank space, others pairwise distinct), remainder pixel column unspecified while scrolling; the drivers' painting at the other depths is C19's subject; geometries enumerated as in C17.", "7 C18"),
})

CLAIMED.update({
 "C05": ("Bounded symbolic model checking of the real setupPDTForKernel at seam level: up to two ELF sections with symbolic address/size/flags and a symbolic kernel offset, 0..2 early reservations, map failure at an arbitrary call - the recorded sequence of (page, frame, flags) map requests equals an independently computed reference (every page of every section in the kernel range, loaded-at frame, W^X flags, never user-accessible, then the early reservations), and the new root is activated last and only on success.",
         "Seam level: visitElfSectionsFn, mapFn, translateFn, activePDTFn, switchPDTFn and the frame allocator are harness functions (the repository's own test seams); that Map installs a requested translation is C04's subject. Sections of 1 byte..3 pages, <= 2 sections, <= 2 reservations (thorough: 5 pages, 3 sections, 3 reservations).", "7 C05"),
 "C06": ("Bounded symbolic model checking of the real page-fault and general-protection handlers and of the zero-frame guard: every bit of the four page-table entries on the faulting path, the fault offset, the error code, the page contents and allocation / temporary-mapping failures are symbolic; resumed iff present, read-only, copy-on-write and the copy could be made, with exactly the leaf entry rewritten (fresh frame, RW, CoW cleared), the copy equal to the page, the TLB entry flushed and the temp mapping removed; every other fault panics and changes nothing; Map / MapTemporary / PageDirectoryTable.Map / IdentityMapRegion refuse a writable mapping of the zero frame for every frame/flag combination; reserveZeroedFrame zeroes, unmaps and arms the guard or returns the failing step's error.",
         "Seam level (ptePtrFn serves one entry per walk level; mapTemporaryFn, unmapFn, flushTLBEntryFn, readCR2Fn, frame allocator are harness functions); kfmt.Printf/Fprintf stubbed while encoding; the 4096-byte copy is checked at 8 representative offsets; real IDT dispatch (package gate) is outside.", "7 C06"),
})

CLAIMED.update({
 "C04": ("Bounded symbolic model checking of the real Map / Unmap / Translate / PageDirectoryTable.Init/Map/Unmap against an independent software MMU over a physical-memory region: every recursive-window address walk() produces is translated by four dependent loads from that memory; N operations on pages from a menu of 7 representative pages (all sharing patterns of table levels, both canonical halves, the temporary-mapping page) with symbolic frames, flags and junk in freshly allocated frames, allocator failure at a symbolic call; afterwards the MMU and Translate agree with a reference map for an arbitrary probe, leaf entries carry exactly the requested flags, changed pages are flushed, the recursive slot is intact; operations on an inactive root leave every page-table frame of the active space bit-for-bit unchanged.",
         "Pages are enumerated (menu), contents symbolic; physical memory of 8 (12) frames at its physical address; freshly allocated frames hold one arbitrary word replicated in all slots; the nextAddrFn seam maps Map's entry-pointer arithmetic back to the designated table (the <<9 recursive arithmetic of that one expression is not exercised); mapTemporaryFn is the identity stub of the repository's tests; TLB is a log of invalidations in the operation harness; the inactive-space harness also runs with an MMU that caches recursive-window translations until they are invalidated (open known finding KF-C04-1).", "7 C04"),
 "C08": ("Transition system generated on every run from kernel/sync/spinlock_amd64.s and the go/ssa of Spinlock.Acquire/TryToAcquire/Release (macro-step folding of thread-local instructions): bounded model checking over every schedule (symbolic scheduler) of 2 threads x 1 lock operation x 13 macro-steps (thorough: 2x2x23, 3x1x19) and a one-step induction from an arbitrary state satisfying a label-free invariant for 2, 3 (4) threads: at most one holder, no lost update in the critical section, a failed TryToAcquire leaves the lock word unchanged, a release frees the lock, a free lock can be taken, no task holds the lock while the lock word reads free, and a blocking acquire running alone on a free lock takes it within 12 macro-steps. The Go method bodies are compiled from SSA into node graphs (one node per sync/atomic call or call into the assembly), so Go-level changes to the lock are modelled.",
         "Sequential consistency + atomic locked XCHG (x86-TSO differs only by store->load reordering, which locked instructions drain); aligned MOVL atomic; yieldFn modelled as a call without effect on the lock word; liveness/fairness under contention outside; an induction counterexample without a bounded-model counterexample is reported INCONCLUSIVE (its pre-state may be unreachable); counterexamples are schedule traces (no native replay of an instruction-level schedule).", "7 C08"),
})

CLAIMED.update({
 "C11": ("Bounded symbolic model checking of the real AML parser (ParseAML with all its passes) on well-formed programs of fixed shape with symbolic contents: every name segment, integer/string constant, flag byte and PkgLength encoding is decided by the solver; after a successful parse every declared object is located by its stream offset and checked for kind, name, absolute path (enclosing named scopes up to the root), integer/string arguments in order; method invocations before and after the declaration carry exactly the declared arguments.",
         "Shapes are enumerated (eleven templates: ten kinds of named objects at the root and nested in a Device; Scope(\\_SB_) and a dual-name Scope to a Device; forward and backward two-argument method calls; parent-prefix, relative and absolute multi-segment names and Scope targets through two nested Devices; invocations with operator expressions as arguments / as operands; If nested in a While body; 0..7-argument invocation inside a deferred block; a name referring into a Device that is declared later through an absolute path; Scope(\\\\) written as RootChar + NullName; a chain of 2..7 Devices declared deepest first through absolute multi-segment paths, concrete names; a two-table load whose second table extends a Device of the first with names and Buffers), contents symbolic; this is not 'every program of the grammar': loads of more than two tables, Buffer size expressions, BankField, nesting depth > 3 are outside. Two open known findings (KF-C11-1 parent-prefix names inside a Device, KF-C11-4 If inside While), both encoded in the repository's golden files. kfmt.Fprintf stubbed while encoding.", "7 C11"),
 "C12": ("Bounded symbolic model checking of the real ParseAML on malformed input: every payload of up to 2 (thorough 3) arbitrary bytes behind a valid header, and templates with unconstrained holes (Device with a dual-name path of 8 arbitrary name bytes; Field Connection buffer with arbitrary length prefix; Scope(\\_SB_) with a 1..2-byte arbitrary body; path-declared Name followed by a Scope directive with 8 arbitrary name bytes; nested Buffers with both package-length bytes from a menu of 20 values; a Method whose PkgLength cuts its name short; a Device declared through a three-segment path, two segments arbitrary, around a nested Device - the path may resolve into the object's own body): never panics, call depth stays within a budget proportional to the input (exceeding it = non-termination), every []byte the tree refers to lies inside the table region, the tree stays a tree (parent chains end, child lists consistent in both directions) and can be printed afterwards, whether the table was accepted or rejected (quick tier: in the templates; thorough: everywhere).",
         "Arbitrary inputs longer than 3 bytes only through the seven templates; termination = call-depth 120 / 600 decisions / 20M instructions per path; kfmt.Fprintf stubbed while encoding.", "7 C12"),
 "C14": ("Bounded symbolic model checking of the real locateRSDT and acpiDriver.DriverInit over raw firmware regions with symbolic bytes: RSDP found at the first 16-byte slot whose descriptor has the signature and a zero byte sum (20 bytes for revision 0, the 36 bytes of the ACPI 2.0 structure otherwise - stated from the specification, not from the padded Go struct), window unmapped on every path; RSDT/XSDT enumeration registers a listed table iff its bytes sum to zero, reports and skips bad ones, and registers the DSDT a checksum-valid FADT designates (32-bit pointer for revision < 2 roots, else the 64-bit one, 32-bit when that is zero); the DSDT is placed alone in its frame, page-aligned or crossing a page boundary, and the mappings the driver requests must reach what it then reads (open known finding KF-C14-2); at the 4 GiB-aligned address 0x200000000; and a FADT laid out as the ACPI specification packs it, X_DSDT at byte offset 140 (open known finding KF-C14-4: the Go struct reads offset 152).",
         "Table lengths and entry addresses are written (concrete) by the harness; signatures pairwise distinct; quick tier: 1 plain table + FADT + DSDT with FADT body bytes zero, thorough: 3 tables, all bytes symbolic; mapping functions are the repository's test seams; kfmt.Fprintf replaced by a one-byte report.", "7 C14"),
 "C16": ("Bounded symbolic model checking of the real kfmt ring buffer (Write/Read step lemmas over an arbitrary ring state of 2048 arbitrary bytes, checked at an arbitrary position), SetOutputSink hand-over (real io.Copy), PrefixWriter, and of hal.DetectHardware with 3 (4) mock drivers of arbitrary detection order byte, kind and probe/init outcome (real sort.Sort, bytes.Buffer, PrefixWriter): probes in non-decreasing order, failed drivers never active, first console/terminal win, terminal attached before it becomes the log sink, and the exact expected log text arrives on it once and in order.",
         "Mock consoles do not implement LogoSetter/FontSetter (boot-command-line handling outside); driver names/versions fixed; ring Write <= 3 bytes, Read <= 4 bytes per step.", "7 C16"),
})

NOT_APPLICABLE = {
 "C20": "FindRedirects is filepath.Walk + go/parser + ast.CommentMap + fmt over a source tree on disk; the inputs are directory trees and Go source text reached through OS calls, reflection and ~40k lines of standard library that the SSA executor cannot encode, and the non-reproducibility in question comes from runtime map-iteration randomisation, which is not a function of any solver-visible input. No bounded version is within reach of solver-based checking; see DESIGN.md 8.1.",
}
NOT_YET = "check not built yet in this revision of /verif (work in progress; see DESIGN.md 9)"

def main():
    props = [json.loads(l)["id"] for l in open("/verif/properties.jsonl")]
    checks = []
    for pid in props:
        if pid not in CLAIMED:
            continue
        text, note, ref = CLAIMED[pid]
        checks.append({
            "property_id": pid,
            "quick_cmd": f"/verif/bin/vcheck {pid} --tier quick",
            "thorough_cmd": f"/verif/bin/vcheck {pid} --tier thorough",
            "evidence_file": f"/verif/evidence/{pid}.json",
            "replay_cmd_template": "/verif/bin/vcheck --replay {path}",
            "engine": "asmbmc" if pid == "C08" else "gosym",
            "level_claimed": {"category": "model_checking", "text": text, "design_ref": "DESIGN.md section " + ref},
            "level_note": note,
            "technique": ("solver-based bounded model checking + one-step induction of a transition system generated from the assembly and go/ssa (z3/cvc5)" if pid == "C08" else "solver-based bounded symbolic execution of go/ssa (SMT bit-vectors, cvc5/z3) with native replay of counterexamples"),
        })
    na = []
    for pid in props:
        if pid in CLAIMED:
            continue
        na.append({"property_id": pid, "reason": NOT_APPLICABLE.get(pid, NOT_YET)})
    m = {
        "version": 1,
        "setup_cmd": "/verif/scripts/setup.sh",
        "hooks": {
            "guard": "verif",
            "enable": "harnesses and the zzverif support package are injected as overlay files (packages.Config.Overlay / go test -overlay) carrying //go:build verif; nothing is added to /repo; one overlay file shadows a repository file: kernel/goruntime/bootstrap_go18+.go (body-less go:linkname declarations that this toolchain cannot link) is replaced by empty stubs for the C07 goruntime harnesses",
            "baseline_off_cmd": "/verif/scripts/baseline_off.sh",
            "source_commits": [],
            "add_only": True,
        },
        "engines": [
            {"name": "asmbmc", "path": "/verif/engine/asmbmc", "serves_properties": ["C08"],
             "kind_free_text": "Plan 9 amd64 assembly subset + go/ssa of the Spinlock methods -> macro-step transition system -> BMC with symbolic schedule and 1-induction, z3 4.8.12 / z3 5.1.0 / cvc5 raced"},
            {"name": "gosym", "path": "/verif/engine", "serves_properties": sorted(p for p in CLAIMED if p != "C08"),
             "kind_free_text": "own symbolic executor for go/ssa -> SMT-LIB2 (QF_ABV), cvc5 incremental primary, z3/z3-new/cvc5 one-shot portfolio on timeout, native replay via go test -overlay"},
        ],
        "checks": checks,
        "not_applicable": na,
        "notes": "Exit codes of vcheck: 0 holds within bounds, 1 violation (with VIOLATION line, after native replay), 3 inconclusive (never on the registered bounds on the unchanged tree).",
    }
    json.dump(m, open("/verif/MANIFEST.json", "w"), indent=1)
    print("MANIFEST.json:", len(checks), "checks,", len(na), "not claimed")

main()
