#!/bin/bash
# Applies seeded change(s) /verif/seeded/<id>/patch.diff to /repo, runs the registered quick check of the
# property it breaks (plus any property named in meta.json "also_check"), reverts /repo, and records the
# outcome in seeded/<id>/check_quick.log and meta.json ("check_result").
# usage: scripts/run_seeded.sh C07-m2 [C11-m1 ...]   (no arguments: every directory under seeded/)
export GOFLAGS=-mod=mod GOPROXY=off GOSUMDB=off GOTOOLCHAIN=local
cd /verif
ids="$@"
[ -z "$ids" ] && ids=$(ls seeded)
for id in $ids; do
  d=/verif/seeded/$id
  [ -f $d/patch.diff ] || { echo "$id: no patch"; continue; }
  if git -C /repo status --short | grep -q .; then echo "/repo is dirty; refusing"; exit 2; fi
  props=$(python3 -c "import json;m=json.load(open('$d/meta.json'));print(' '.join([m['property']]+m.get('also_check',[])))")
  git -C /repo apply $d/patch.diff || { echo "$id: patch does not apply"; continue; }
  : > $d/check_quick.log
  summary=""
  for p in $props; do
    t0=$(date +%s)
    echo "### vcheck $p (quick) with seeded change $id applied" >> $d/check_quick.log
    timeout 1800 ./bin/vcheck $p >> $d/check_quick.log 2>&1; rc=$?
    t1=$(date +%s)
    summary="$summary $p:exit=$rc:${t1}-${t0}"
    echo "$id: vcheck $p exit=$rc time=$((t1-t0))s violation_lines=$(grep -c "^VIOLATION property=$p" $d/check_quick.log)"
    python3 - "$d/meta.json" "$p" "$rc" "$((t1-t0))" "$d/check_quick.log" <<'PY'
import json,sys,re
mp,prop,rc,secs,log=sys.argv[1:]
m=json.load(open(mp))
sites=sorted(set(re.findall(r'violation candidate: (\S+) kind=\S+ site="([^"]*)"',open(log).read())))
viol=[l.strip() for l in open(log) if l.startswith('VIOLATION property='+prop)]
m.setdefault('check_result',{})[prop]={'command':'./bin/vcheck %s (quick), change applied with git -C /repo apply, reverted with git -C /repo checkout -- .'%prop,
  'exit':int(rc),'seconds':int(secs),'caught':int(rc)==1 and len(viol)>0,'violation_lines':len(viol),
  'sites':['%s: %s'%s for s in sites][:6]}
json.dump(m,open(mp,'w'),indent=2)
PY
  done
  git -C /repo checkout -- .
done
