#!/bin/bash
# Runs every registered quick check once, in sequence, against /repo as it is, and reports exit codes and times.
# (What `vp check` does, minus the fresh copy.) Evidence files are rewritten by the runs.
cd /verif
ok=1
for id in $(python3 -c "import json;print(' '.join(c['property_id'] for c in json.load(open('/verif/MANIFEST.json'))['checks']))"); do
  cmd=$(python3 -c "import json;print([c['quick_cmd'] for c in json.load(open('/verif/MANIFEST.json'))['checks'] if c['property_id']=='$id'][0])")
  rm -f evidence/$id.json
  t0=$(date +%s)
  $cmd > out/quick-$id.log 2>&1; rc=$?
  t1=$(date +%s)
  kf=$(grep -c '^KNOWN-FINDING' out/quick-$id.log)
  inc=$(grep -c '^INCOMPLETE' out/quick-$id.log)
  echo "$id exit=$rc time=$((t1-t0))s known_findings=$kf incomplete=$inc evidence=$([ -f evidence/$id.json ] && echo yes || echo MISSING) $(grep -E '^\[C[0-9]+' out/quick-$id.log | tail -1)"
  [ $rc -eq 0 ] || ok=0
done
[ $ok -eq 1 ] && echo "ALL QUICK CHECKS EXIT 0" || echo "SOME CHECK DID NOT EXIT 0"
