package gosym

import (
	"fmt"
	"go/token"
	"go/types"
	"os"
	"sort"
	"strings"
	"time"

	"golang.org/x/tools/go/ssa"

	"verif/engine/smt"
)

// pathAbort ends the current path without being a Go-level panic.
type pathAbort struct {
	kind string // infeasible | assume | budget | violation | frontier
	msg  string
}

// goPanic is a Go-level panic travelling through interpreted frames.
type goPanic struct {
	val       Iface
	msg       string
	site      string
	recovered bool
}

type mergeFail struct{ why string }

type node struct {
	taken    bool
	pending  bool // other side feasible and not yet explored
	event    int
	forced   bool
	condID   int
	model    *smt.Model // model of the pending side
	auxAfter []AuxRec   // solver-guided choices made after this decision and before the next one
}

// AuxRec is one solver-guided concretisation choice (a model value), recorded so
// that re-executions of the same path prefix make the same choice.
type AuxRec struct {
	Site   int64 // instruction count
	V      uint64
	GaveUp bool
}

// Decision is one recorded branch decision (used for forced prefixes).
type Decision struct {
	Taken    bool
	AuxAfter []AuxRec
}

// Violation is a property violation candidate found on one path.
type Violation struct {
	Harness   string            `json:"harness"`
	Kind      string            `json:"kind"` // assert | panic | memory | budget
	Site      string            `json:"site"`
	Msg       string            `json:"msg"`
	Known     string            `json:"known,omitempty"`
	Inputs    []ReplayInput     `json:"inputs"`
	Regions   map[string]string `json:"regions,omitempty"`
	Limits    map[string]uint64 `json:"limits,omitempty"`
	Tier      string            `json:"tier"`
	Decisions string            `json:"decisions"`
	Solver    string            `json:"solver_result"`
	PathIndex int               `json:"path_index"`
}

type ReplayInput struct {
	Label string `json:"label"`
	Name  string `json:"name"`
	Width int    `json:"width"`
	Value uint64 `json:"value"`
}

type Config struct {
	Tier              string
	Backend           smt.Backend
	SoftMS            int
	HardS             int
	Scratch           string
	InstrBudget       int64
	DepthBudget       int
	MaxPaths          int
	Twin              bool // append Assert(false) at harness end (vacuity witness)
	Trace             bool
	NoMerge           bool
	BudgetIsViolation bool
	ConcretizeN       int
	MaxDecisions      int
	BatchMax          int
	TimeBudget        time.Duration
	Deadline          time.Time
}

type Result struct {
	Harness      string
	Paths        int
	PathEnds     map[string]int
	Decisions    int
	Instrs       int64
	Asserts      int
	AssertSites  map[string]int
	Reach        map[string]int
	Violations   []Violation
	KnownHits    map[string]string // id -> what (site)
	Inconclusive []string
	Funcs        map[string]bool
	Intrinsics   map[string]bool
	Overrides    []string
	Assumes      map[string]int
	Merged       int
	MaxCands     int
	Solver       smt.Stats
	Wall         time.Duration
	Samples      []PathSample
	Frontier     [][]Decision
	FrontierRoot []AuxRec
	BudgetHits   int
	Observes     []string
	TwinSat      bool
	FactHits     int
	OneSided     int
	Witness      []Violation
}

type PathSample struct {
	Decisions string            `json:"decisions"`
	End       string            `json:"end"`
	Inputs    map[string]string `json:"inputs,omitempty"`
}

type Exec struct {
	prog *ssa.Program
	c    *smt.Ctx
	sol  *smt.Solver
	cfg  Config
	ld   *Loaded

	// decision stack
	stack         []node
	depth         int // decisions taken on the current path
	event         int // events (assumes/decisions/checks) on the current path
	synced        int // events already mirrored in the solver
	pc            []*Term
	frontierDepth int // >0: stop paths at this decision depth and record prefixes
	minDepth      int // do not backtrack below this many decisions (forced prefix)

	// memory
	objs      []*Obj
	nobj      int
	snapObjs  int
	constObjs []*Obj
	strObjs   map[string]*Obj
	globObjs  map[*ssa.Global]*Obj
	globIndex map[*ssa.Global]int
	regions   []*Obj
	havocs    []*Obj
	dirtyObjs []*Obj
	maps      []*MapObj
	snapMaps  int
	selects   []*Term
	selSeen   map[int]bool

	// per path
	symCount    map[string]int
	syms        []*Term
	symLabels   []string
	guard       *Term
	spec        *specState
	callDepth   int
	instrs      int64
	panicking   []*goPanic
	knownConds  []knownCond
	model       *smt.Model
	pending     []pendingAssert
	facts       map[int]bool
	auxRoot     []AuxRec
	auxQueue    []AuxRec
	auxOwner    int // index of the stack node owning new aux records, -1 = root
	lockWatch   *watch
	watched     []*Obj
	observes    []string
	inInit      bool
	lockEvents  int
	curPos      token.Pos
	harnessDone bool

	res        *Result
	maxCands   int
	overrides  map[*ssa.Function]*ssa.Function
	curHarness string
	initDone   map[*ssa.Package]bool
}

var traceOn = os.Getenv("VERIF_TRACE") != ""

type knownCond struct {
	id   string
	cond *Term
}

type specState struct {
	saved map[*Obj]objSnap
}
type objSnap struct {
	cells map[int64]cell
	log   []logEntry
	limit *Term
}

func (ex *Exec) silent() bool { return ex.event < ex.synced }

func (ex *Exec) fresh(label string, w int) *Term {
	n := ex.symCount[label]
	ex.symCount[label] = n + 1
	name := fmt.Sprintf("%s!%d", sanitize(label), n)
	t := ex.c.Var(w, "|"+name+"|")
	ex.syms = append(ex.syms, t)
	ex.symLabels = append(ex.symLabels, label)
	return t
}

func sanitize(s string) string {
	return strings.Map(func(r rune) rune {
		if r == '|' || r == '\\' || r == ' ' || r == '\n' {
			return '_'
		}
		return r
	}, s)
}

func (ex *Exec) noteSelect(sel *Term) {
	if !ex.selSeen[sel.ID] {
		ex.selSeen[sel.ID] = true
		ex.selects = append(ex.selects, sel)
	}
}

func (ex *Exec) assume(c *Term) {
	if c.IsTrue() {
		return
	}
	if ex.guard != nil {
		panic(mergeFail{"assume in merged arm"})
	}
	ex.flushAsserts()
	ex.assumeRaw(c)
}

// learn records literals implied by an asserted condition so that syntactically
// repeated branch conditions are decided without the solver.
func (ex *Exec) learn(c *Term, val bool) {
	if c.IsConst() {
		return
	}
	if _, ok := ex.facts[c.ID]; ok {
		return
	}
	ex.facts[c.ID] = val
	switch c.Op {
	case "not":
		ex.learn(c.Args[0], !val)
	case "and":
		if val {
			ex.learn(c.Args[0], true)
			ex.learn(c.Args[1], true)
		}
	case "or":
		if !val {
			ex.learn(c.Args[0], false)
			ex.learn(c.Args[1], false)
		}
	}
}

// known looks a condition up among the learnt literals.
func (ex *Exec) knownFact(c *Term) (bool, bool) {
	if v, ok := ex.facts[c.ID]; ok {
		return v, true
	}
	switch c.Op {
	case "not":
		if v, ok := ex.knownFact(c.Args[0]); ok {
			return !v, true
		}
	case "and":
		a, oka := ex.knownFact(c.Args[0])
		b, okb := ex.knownFact(c.Args[1])
		if (oka && !a) || (okb && !b) {
			return false, true
		}
		if oka && okb {
			return true, true
		}
	case "or":
		a, oka := ex.knownFact(c.Args[0])
		b, okb := ex.knownFact(c.Args[1])
		if (oka && a) || (okb && b) {
			return true, true
		}
		if oka && okb {
			return false, true
		}
	}
	return false, false
}

func (ex *Exec) assumeRaw(c *Term) {
	if c.IsTrue() {
		return
	}
	ex.learn(c, true)
	ex.pc = append(ex.pc, c)
	if !ex.silent() {
		ex.sol.Assert(c)
		ex.synced = ex.event + 1
	}
	ex.event++
	if c.IsFalse() {
		panic(pathAbort{kind: "assume"})
	}
	if ex.model != nil && !ex.modelSays(c) {
		ex.model = nil
	}
}

// modelSays evaluates c under the cached model; false also when the model is incomplete for c.
func (ex *Exec) modelSays(c *Term) bool {
	ex.model.Miss = false
	v := smt.Eval(c, ex.model, map[int]uint64{})
	if ex.model.Miss {
		return false
	}
	return v == 1
}

// branch decides a symbolic condition and returns the side taken on this path.
func (ex *Exec) branch(cond *Term) bool {
	if cond.IsTrue() {
		return true
	}
	if cond.IsFalse() {
		return false
	}
	if ex.guard != nil {
		return ex.guardedBranch(cond)
	}
	if v, ok := ex.knownFact(cond); ok {
		ex.res.FactHits++
		return v
	}
	ex.flushAsserts()
	if v, ok := ex.knownFact(cond); ok {
		ex.res.FactHits++
		return v
	}
	d := ex.depth
	if d < len(ex.stack) {
		n := ex.stack[d]
		alt := cond
		if !n.taken {
			alt = ex.c.Not(cond)
		}
		ex.pc = append(ex.pc, alt)
		ex.learn(alt, true)
		if !ex.silent() {
			ex.sol.Push()
			ex.sol.Assert(alt)
			ex.synced = ex.event + 1
		}
		if n.condID != 0 && n.condID != cond.ID+1 {
			panic(fmt.Sprintf("gosym: nondeterministic re-execution at decision %d in %s", d, ex.curHarness))
		}
		ex.stack[d].condID = cond.ID + 1
		ex.stack[d].event = ex.event
		ex.event++
		ex.depth++
		ex.auxQueue = append(ex.auxQueue[:0], n.auxAfter...)
		ex.auxOwner = d
		if d == len(ex.stack)-1 && n.model != nil {
			ex.model = n.model
			ex.stack[d].model = nil
		} else if ex.model != nil && !ex.modelSays(alt) {
			ex.model = nil
		}
		return n.taken
	}
	if ex.frontierDepth > 0 && d >= ex.frontierDepth {
		pre := make([]Decision, len(ex.stack))
		for i, n := range ex.stack {
			pre[i] = Decision{n.taken, append([]AuxRec(nil), n.auxAfter...)}
		}
		ex.res.Frontier = append(ex.res.Frontier, pre)
		ex.res.FrontierRoot = append([]AuxRec(nil), ex.auxRoot...)
		panic(pathAbort{kind: "frontier"})
	}
	nc := ex.c.Not(cond)
	var ft, ff bool
	var otherModel *smt.Model
	if traceOn {
		t0 := time.Now()
		q0 := ex.sol.Stats.Queries
		defer func() {
			fmt.Fprintf(os.Stderr, "[trace] decision d=%d at %s queries=%d time=%.2fs instrs=%d cond=%s\n", d, ex.pos(ex.curPos), ex.sol.Stats.Queries-q0, time.Since(t0).Seconds(), ex.instrs, smt.Render(cond, 4))
		}()
	}
	known := false
	if ex.model != nil {
		// the cached model of the path condition decides one side for free
		ex.model.Miss = false
		v := smt.Eval(cond, ex.model, map[int]uint64{})
		if !ex.model.Miss {
			known = true
			if v == 1 {
				ft = true
				r, m := ex.sol.Check(nc, true, ex.syms, ex.selects)
				ff, otherModel = r != "unsat", m
			} else {
				ff = true
				r, m := ex.sol.Check(cond, true, ex.syms, ex.selects)
				ft, otherModel = r != "unsat", m
				if ft {
					// explore the true side first: swap roles so that the cached model stays with the pending side
					otherModel, ex.model = ex.model, otherModel
				}
			}
		}
	}
	if !known {
		rt, mt := ex.sol.Check(cond, true, ex.syms, ex.selects)
		ft = rt != "unsat"
		if ft {
			ex.model = mt
			rf, mf := ex.sol.Check(nc, true, ex.syms, ex.selects)
			ff, otherModel = rf != "unsat", mf
		} else {
			rf, mf := ex.sol.Check(nc, true, ex.syms, ex.selects)
			ff = rf != "unsat"
			ex.model = mf
		}
	}
	if !ft && !ff {
		panic(pathAbort{kind: "infeasible"})
	}
	n := node{taken: ft, pending: ft && ff, event: ex.event, condID: cond.ID + 1}
	if n.pending {
		n.model = otherModel
	}
	ex.stack = append(ex.stack, n)
	alt := cond
	if !n.taken {
		alt = nc
	}
	ex.auxQueue = ex.auxQueue[:0]
	ex.auxOwner = len(ex.stack) - 1
	ex.pc = append(ex.pc, alt)
	ex.learn(alt, true)
	ex.sol.Push()
	ex.sol.Assert(alt)
	ex.synced = ex.event + 1
	ex.event++
	ex.depth++
	ex.res.Decisions++
	if ex.depth > ex.cfg.MaxDecisions {
		panic(pathAbort{kind: "budget", msg: fmt.Sprintf("more than %d decisions on one path (unbounded loop over a symbolic bound?) at %s", ex.cfg.MaxDecisions, ex.pos(ex.curPos))})
	}
	if !n.pending {
		ex.res.OneSided++
	}
	return n.taken
}

// require is branch for run-time checks: returns whether ok holds on this path.
func (ex *Exec) require(ok *Term) bool { return ex.branch(ok) }

func (ex *Exec) choice(label string, n int) int {
	if n <= 1 {
		return 0
	}
	v := ex.fresh(label, 8)
	ex.assume(ex.c.Cmp("bvult", v, ex.c.Const(8, uint64(n))))
	for i := 0; i < n-1; i++ {
		if ex.branch(ex.c.Eq(v, ex.c.Const(8, uint64(i)))) {
			return i
		}
	}
	return n - 1
}

// concretize forks over values 0..max of a length-like term.
func (ex *Exec) concretize(x *Term, max int, what string) uint64 {
	if x.IsConst() {
		return x.Val
	}
	um := ex.c.UMax(x)
	for i := 0; i <= max; i++ {
		if uint64(i) > um {
			break
		}
		if !ex.c.MayEq(x, uint64(i)) {
			continue
		}
		if ex.branch(ex.c.Eq(x, ex.c.Const(x.W, uint64(i)))) {
			return uint64(i)
		}
	}
	panic(pathAbort{kind: "budget", msg: fmt.Sprintf("%s: symbolic size exceeds %d", what, max)})
}

func (ex *Exec) modelInputs(m *smt.Model) []ReplayInput {
	var ins []ReplayInput
	for i, s := range ex.syms {
		v := uint64(0)
		if m != nil {
			v = m.Vars[s.Name]
		}
		ins = append(ins, ReplayInput{Label: ex.symLabels[i], Name: strings.Trim(s.Name, "|"), Width: s.W, Value: v})
	}
	return ins
}

func (ex *Exec) modelRegions(m *smt.Model) map[string]string {
	if m == nil {
		return nil
	}
	out := map[string]string{}
	for _, o := range append(append([]*Obj(nil), ex.regions...), ex.havocs...) {
		if o.arr == "" {
			continue
		}
		arr := m.Arrays[o.arr]
		name := o.name
		if o.havocLabel != "" {
			name = o.havocLabel
		}
		if o.size > 1<<20 {
			// a huge region is written sparsely: "sparse:" followed by offset=byte pairs (hex) of the bytes the
			// model fixes; every other byte is zero
			keys := make([]uint64, 0, len(arr))
			for k := range arr {
				if k < uint64(o.size) && arr[k] != 0 {
					keys = append(keys, k)
				}
			}
			sort.Slice(keys, func(i, j int) bool { return keys[i] < keys[j] })
			var sb strings.Builder
			sb.WriteString("sparse:")
			for i, k := range keys {
				if i > 0 {
					sb.WriteByte(',')
				}
				fmt.Fprintf(&sb, "%x=%02x", k, arr[k])
			}
			out[name] = sb.String()
			continue
		}
		buf := make([]byte, o.size)
		for k, v := range arr {
			if k < uint64(o.size) {
				buf[k] = v
			}
		}
		out[name] = fmt.Sprintf("%x", buf)
	}
	return out
}

func (ex *Exec) modelLimits(m *smt.Model) map[string]uint64 {
	if m == nil {
		return nil
	}
	out := map[string]uint64{}
	for _, o := range ex.regions {
		if o.limit != nil && o.region {
			out[o.name] = smt.Eval(o.limit, m, map[int]uint64{})
		}
	}
	return out
}

func (ex *Exec) decisionString() string {
	var sb strings.Builder
	for i := 0; i < ex.depth && i < len(ex.stack); i++ {
		if ex.stack[i].taken {
			sb.WriteByte('1')
		} else {
			sb.WriteByte('0')
		}
	}
	return sb.String()
}

func (ex *Exec) recordViolation(kind, site, msg string, extra *Term) {
	if len(ex.knownConds) == 0 {
		for _, v := range ex.res.Violations {
			if v.Site == site && v.Kind == kind {
				return // already have a counterexample for this site
			}
		}
	}
	// extra: additional constraint (negated assertion) or nil (path condition itself)
	known := ex.c.False()
	for _, k := range ex.knownConds {
		known = ex.c.Or(known, k.cond)
	}
	q := ex.c.Not(known)
	if extra != nil {
		q = ex.c.And(extra, q)
	}
	r, m := ex.sol.Check(q, true, ex.syms, ex.selects)
	if r == "unsat" {
		// only explained by known findings (or not a violation at all)
		if extra != nil {
			r0, _ := ex.sol.Check(extra, false, nil, nil)
			if r0 == "unsat" {
				return
			}
		}
		for _, k := range ex.knownConds {
			q2 := k.cond
			if extra != nil {
				q2 = ex.c.And(extra, k.cond)
			}
			if r2, _ := ex.sol.Check(q2, false, nil, nil); r2 != "unsat" {
				ex.res.KnownHits[k.id] = site + ": " + msg
			}
		}
		return
	}
	v := Violation{Harness: ex.curHarness, Kind: kind, Site: site, Msg: msg, Solver: r,
		Decisions: ex.decisionString(), PathIndex: ex.res.Paths}
	if r == "sat" {
		v.Inputs = ex.modelInputs(m)
		v.Regions = ex.modelRegions(m)
		v.Limits = ex.modelLimits(m)
		v.Tier = ex.cfg.Tier
	} else {
		ex.res.Inconclusive = append(ex.res.Inconclusive, fmt.Sprintf("assertion query %s at %s (%s)", r, site, msg))
		return
	}
	ex.res.Violations = append(ex.res.Violations, v)
}

// check discharges an assertion on the current path.
func (ex *Exec) check(c *Term, site string) {
	ex.res.Asserts++
	ex.res.AssertSites[site]++
	if c.IsTrue() {
		return
	}
	if ex.guard != nil {
		panic(mergeFail{"assert in merged arm"})
	}
	if ex.silent() && len(ex.pending) == 0 {
		ex.assumeRaw(c)
		return
	}
	ex.pending = append(ex.pending, pendingAssert{c, site})
	if len(ex.pending) >= ex.cfg.BatchMax {
		ex.flushAsserts()
	}
}

type pendingAssert struct {
	c    *Term
	site string
}

// flushAsserts discharges the batched assertions: one query for the conjunction, split only if that fails.
func (ex *Exec) flushAsserts() {
	if len(ex.pending) == 0 {
		return
	}
	pend := ex.pending
	ex.pending = nil
	conj := ex.c.True()
	for _, p := range pend {
		conj = ex.c.And(conj, p.c)
	}
	all := "unsat"
	if !conj.IsTrue() {
		t0 := time.Now()
		all, _ = ex.sol.Check(ex.c.Not(conj), false, nil, nil)
		if traceOn {
			fmt.Fprintf(os.Stderr, "[trace] assert batch n=%d first=%q result=%s time=%.2fs\n", len(pend), pend[0].site, all, time.Since(t0).Seconds())
		}
	}
	for _, p := range pend {
		if all != "unsat" {
			r, _ := ex.sol.Check(ex.c.Not(p.c), false, nil, nil)
			if r != "unsat" {
				ex.recordViolation("assert", p.site, "assertion can fail", ex.c.Not(p.c))
			}
		}
		ex.assumeRaw(p.c)
	}
}

// ---------- exploration ----------

func (ex *Exec) resetPath() {
	for _, o := range ex.dirtyObjs {
		o.cells = o.savedCells
		o.log = o.savedLog
		o.limit = o.savedLimit
		o.savedCells, o.savedLog, o.savedLimit = nil, nil, nil
		o.dirty = false
		o.keysValid = false
	}
	ex.dirtyObjs = ex.dirtyObjs[:0]
	ex.objs = ex.objs[:ex.snapObjs]
	ex.nobj = ex.snapObjs
	ex.regions = ex.regions[:0]
	ex.havocs = ex.havocs[:0]
	for _, m := range ex.maps[:ex.snapMaps] {
		m.entries = append(m.entries[:0:0], m.saved...)
	}
	ex.maps = ex.maps[:ex.snapMaps]
	ex.symCount = map[string]int{}
	ex.syms = ex.syms[:0]
	ex.symLabels = ex.symLabels[:0]
	ex.selects = ex.selects[:0]
	ex.selSeen = map[int]bool{}
	ex.guard = nil
	ex.spec = nil
	ex.callDepth = 0
	ex.instrs = 0
	ex.panicking = nil
	ex.knownConds = nil
	ex.pending = nil
	ex.facts = map[int]bool{}
	ex.model = nil
	ex.lockWatch = nil
	ex.watched = nil
	ex.observes = nil
	ex.depth = 0
	ex.event = 0
	ex.pc = ex.pc[:0]
	ex.harnessDone = false
	ex.lockEvents = 0
	ex.auxQueue = append(ex.auxQueue[:0], ex.auxRoot...)
	ex.auxOwner = -1
}

func (ex *Exec) snapshot() {
	for _, o := range ex.objs {
		o.persistent = true
	}
	for _, o := range ex.globObjs {
		o.persistent = true
	}
	ex.snapObjs = len(ex.objs)
	ex.snapMaps = len(ex.maps)
	for _, m := range ex.maps {
		m.saved = append([]mapEntry(nil), m.entries...)
	}
}

// Explore runs all paths of harness fn that extend the forced decision prefix.
func (ex *Exec) Explore(fn *ssa.Function, prefix []Decision, rootAux []AuxRec, frontierDepth int) *Result {
	t0 := time.Now()
	res := &Result{Harness: fn.Name(), PathEnds: map[string]int{}, AssertSites: map[string]int{}, Reach: map[string]int{},
		KnownHits: map[string]string{}, Funcs: map[string]bool{}, Intrinsics: map[string]bool{}, Assumes: map[string]int{}}
	ex.res = res
	ex.curHarness = fn.Name()
	ex.frontierDepth = frontierDepth
	ex.stack = ex.stack[:0]
	for _, b := range prefix {
		ex.stack = append(ex.stack, node{taken: b.Taken, forced: true, auxAfter: append([]AuxRec(nil), b.AuxAfter...)})
	}
	ex.minDepth = len(prefix)
	ex.auxRoot = append([]AuxRec(nil), rootAux...)
	ex.synced = 0
	ex.sol.PopTo(0)
	for {
		ex.resetPath()
		end := ex.runPath(fn)
		res.Paths++
		res.PathEnds[end]++
		res.Instrs += ex.instrs
		if len(res.Samples) < 8 && end != "infeasible" && end != "frontier" {
			res.Samples = append(res.Samples, PathSample{Decisions: ex.decisionString(), End: end})
		}
		if !ex.cfg.Deadline.IsZero() && time.Now().After(ex.cfg.Deadline) {
			res.Inconclusive = append(res.Inconclusive, fmt.Sprintf("run deadline reached after %d paths of this job (exploration incomplete)", res.Paths))
			break
		}
		if ex.cfg.TimeBudget > 0 && time.Since(t0) > ex.cfg.TimeBudget {
			res.Inconclusive = append(res.Inconclusive, fmt.Sprintf("time budget of %s for one exploration job exceeded after %d paths (exploration incomplete)", ex.cfg.TimeBudget, res.Paths))
			break
		}
		if ex.cfg.MaxPaths > 0 && res.Paths >= ex.cfg.MaxPaths {
			res.Inconclusive = append(res.Inconclusive, fmt.Sprintf("path budget %d reached", ex.cfg.MaxPaths))
			break
		}
		// backtrack
		ex.stack = ex.stack[:min(len(ex.stack), max(ex.depth, ex.minDepth))]
		for len(ex.stack) > ex.minDepth {
			top := &ex.stack[len(ex.stack)-1]
			if top.pending {
				top.pending = false
				top.taken = !top.taken
				top.auxAfter = nil
				break
			}
			ex.stack = ex.stack[:len(ex.stack)-1]
		}
		if len(ex.stack) <= ex.minDepth {
			break
		}
		k := len(ex.stack) - 1
		ex.synced = ex.stack[k].event
		ex.sol.PopTo(k)
	}
	res.Merged = 0
	res.MaxCands = ex.maxCands
	res.Solver = ex.sol.Stats
	res.Wall = time.Since(t0)
	return res
}

func (ex *Exec) runPath(fn *ssa.Function) (end string) {
	defer func() {
		r := recover()
		if r == nil {
			return
		}
		if pa, ok := r.(pathAbort); !(ok && (pa.kind == "infeasible" || pa.kind == "assume" || pa.kind == "frontier")) {
			func() {
				defer func() { recover() }()
				ex.flushAsserts()
			}()
		}
		switch e := r.(type) {
		case pathAbort:
			switch e.kind {
			case "violation":
				ex.recordViolation("memory", e.msg, e.msg, nil)
				end = "violation:" + e.msg
			case "monitor":
				ex.recordViolation("monitor", e.msg, e.msg, nil)
				end = "violation:" + e.msg
			case "budget":
				ex.res.BudgetHits++
				if ex.cfg.BudgetIsViolation {
					ex.recordViolation("budget", e.msg, e.msg, nil)
				} else {
					ex.res.Inconclusive = append(ex.res.Inconclusive, "budget: "+e.msg)
				}
				end = "budget"
			default:
				end = e.kind
			}
		case *goPanic:
			ex.recordViolation("panic", e.site, "uncaught Go panic: "+e.msg, nil)
			end = "panic:" + e.msg
		case unsupportedErr:
			ex.res.Inconclusive = append(ex.res.Inconclusive, "unsupported: "+e.what)
			end = "unsupported"
		case mergeFail:
			ex.res.Inconclusive = append(ex.res.Inconclusive, "internal: merge failure escaped: "+e.why)
			end = "unsupported"
		default:
			panic(r)
		}
	}()
	ex.call(Func{fn: fn}, nil)
	ex.flushAsserts()
	if len(ex.res.Witness) < 3 {
		// vacuity witness: the end of the harness is reachable; its model is later replayed natively
		r, m := ex.sol.Check(nil, true, ex.syms, ex.selects)
		if r == "sat" {
			ex.res.TwinSat = true
			ex.res.Witness = append(ex.res.Witness, Violation{Harness: ex.curHarness, Kind: "witness", Inputs: ex.modelInputs(m),
				Regions: ex.modelRegions(m), Limits: ex.modelLimits(m), Tier: ex.cfg.Tier, Decisions: ex.decisionString(), Solver: r})
		}
	}
	ex.res.Observes = append(ex.res.Observes, ex.observes...)
	return "ok"
}

// ---------- Go panics ----------

func (ex *Exec) runtimePanic(msg string) *goPanic {
	return &goPanic{val: Iface{typ: runtimeErrorType, v: ex.constString("runtime error: " + msg)}, msg: "runtime error: " + msg}
}

var runtimeErrorType = types.NewNamed(types.NewTypeName(0, nil, "runtimeError", nil), types.Typ[types.String], nil)

func sortedKeysBool(m map[string]bool) []string {
	var ks []string
	for k := range m {
		ks = append(ks, k)
	}
	sort.Strings(ks)
	return ks
}

// auxChoice returns the recorded choice for the current position, if re-executing.
func (ex *Exec) auxChoice() (AuxRec, bool) {
	if len(ex.auxQueue) > 0 && ex.auxQueue[0].Site == ex.instrs {
		r := ex.auxQueue[0]
		ex.auxQueue = ex.auxQueue[1:]
		return r, true
	}
	return AuxRec{}, false
}

func (ex *Exec) auxRecord(r AuxRec) {
	if ex.auxOwner < 0 {
		ex.auxRoot = append(ex.auxRoot, r)
	} else {
		ex.stack[ex.auxOwner].auxAfter = append(ex.stack[ex.auxOwner].auxAfter, r)
	}
}

// guardedBranch decides a run-time check inside a merged arm without forking: the
// check must be valid (or unsatisfiable) whenever the arm's guard holds, otherwise
// the merge is abandoned. Outcomes are recorded in the decision trail so that
// re-executions (whose solver context is stronger) repeat them.
func (ex *Exec) guardedBranch(cond *Term) bool {
	if v, ok := ex.knownFact(cond); ok {
		return v
	}
	outcome := uint64(2)
	if rec, ok := ex.auxChoice(); ok {
		outcome = rec.V
	} else {
		if ex.silent() {
			panic(mergeFail{"unrecorded check in merged arm during re-execution"})
		}
		if r0, _ := ex.sol.Check(ex.c.Not(cond), false, nil, nil); r0 == "unsat" {
			outcome = 3 // valid on the whole path, not only under the guard
		} else if r, _ := ex.sol.Check(ex.c.And(ex.guard, ex.c.Not(cond)), false, nil, nil); r == "unsat" {
			outcome = 1
		} else if r2, _ := ex.sol.Check(ex.c.And(ex.guard, cond), false, nil, nil); r2 == "unsat" {
			outcome = 0
		}
		ex.auxRecord(AuxRec{Site: ex.instrs, V: outcome})
	}
	switch outcome {
	case 3:
		ex.learn(cond, true) // implied by the path condition: later identical checks are free
		return true
	case 1:
		return true
	case 0:
		return false
	}
	panic(mergeFail{"branch in merged arm"})
}

// probe asks which sides of cond are feasible on the current path without creating
// a decision. The answer is recorded in the trail (re-executions must repeat it).
// A side found infeasible makes the other an implied fact.
func (ex *Exec) probe(cond *Term) (feasT, feasF bool) {
	if v, ok := ex.knownFact(cond); ok {
		return v, !v
	}
	var outcome uint64
	if rec, ok := ex.auxChoice(); ok {
		outcome = rec.V
	} else {
		if ex.silent() {
			outcome = 3
		} else {
			ex.flushAsserts()
			feasT, feasF = true, true
			known := false
			if ex.model != nil {
				ex.model.Miss = false
				v := smt.Eval(cond, ex.model, map[int]uint64{})
				if !ex.model.Miss {
					known = true
					if v == 1 {
						r, _ := ex.sol.Check(ex.c.Not(cond), false, nil, nil)
						feasF = r != "unsat"
					} else {
						r, _ := ex.sol.Check(cond, false, nil, nil)
						feasT = r != "unsat"
					}
				}
			}
			if !known {
				r, _ := ex.sol.Check(cond, false, nil, nil)
				feasT = r != "unsat"
				if feasT {
					r2, _ := ex.sol.Check(ex.c.Not(cond), false, nil, nil)
					feasF = r2 != "unsat"
				}
			}
			if feasT {
				outcome |= 1
			}
			if feasF {
				outcome |= 2
			}
		}
		ex.auxRecord(AuxRec{Site: ex.instrs, V: outcome})
	}
	feasT, feasF = outcome&1 != 0, outcome&2 != 0
	if feasT && !feasF {
		ex.learn(cond, true)
	} else if feasF && !feasT {
		ex.learn(cond, false)
	}
	return
}
