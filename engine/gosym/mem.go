package gosym

import (
	"fmt"
	"go/types"
	"sort"

	"verif/engine/smt"
)

type cell struct {
	size  int64
	v     Value
	stamp int // len(obj.log) when written
}

type logEntry struct {
	off *Term // BV64
	val *Term // BV8
}

// Obj is one memory object: a Go allocation, a global, a constant's backing
// store, or a raw region declared by a harness.
type Obj struct {
	id     int
	name   string
	base   uint64
	size   int64
	cells  map[int64]cell
	region bool
	arr    string // uninterpreted array giving the initial content ("" => zero)
	log    []logEntry
	limit  *Term // accessible prefix (nil => size)

	persistent bool // exists in the post-init snapshot
	dirty      bool
	savedCells map[int64]cell
	savedLog   []logEntry
	savedLimit *Term

	keys      []int64 // sorted cell offsets cache
	keysValid bool

	watch *watch

	havocLabel string // set by zzverif.Havoc: label under which the content appears in models
}

type watch struct {
	lock   Ptr // *sync.Spinlock state word
	tag    string
	ranges [][2]int64 // watched byte ranges [lo,hi) of the object
}

const objSpacing = 1 << 24

func (ex *Exec) newObj(size int64, name string) *Obj {
	if size > objSpacing-4096 {
		panic(unsupported(fmt.Sprintf("object %s of %d bytes", name, size)))
	}
	ex.nobj++
	o := &Obj{id: ex.nobj, size: size, cells: map[int64]cell{}, name: name, base: 0xc000000000 + uint64(ex.nobj)*objSpacing}
	ex.objs = append(ex.objs, o)
	return o
}

func (o *Obj) touch(ex *Exec) {
	o.keysValid = false
	if ex.spec != nil {
		if _, ok := ex.spec.saved[o]; !ok {
			cl := make(map[int64]cell, len(o.cells))
			for k, v := range o.cells {
				cl[k] = v
			}
			ex.spec.saved[o] = objSnap{cl, o.log[:len(o.log):len(o.log)], o.limit}
		}
	}
	if o.persistent && !o.dirty {
		o.dirty = true
		o.savedCells = make(map[int64]cell, len(o.cells))
		for k, v := range o.cells {
			o.savedCells[k] = v
		}
		o.savedLog = o.log[:len(o.log):len(o.log)]
		o.savedLimit = o.limit
		ex.dirtyObjs = append(ex.dirtyObjs, o)
	}
}

func (o *Obj) sortedKeys() []int64 {
	if !o.keysValid {
		o.keys = o.keys[:0]
		for k := range o.cells {
			o.keys = append(o.keys, k)
		}
		sort.Slice(o.keys, func(i, j int) bool { return o.keys[i] < o.keys[j] })
		o.keysValid = true
	}
	return o.keys
}

// ---------- address <-> pointer ----------

// linear splits t into (constant part, symbolic rest) with t == const + rest.
func (ex *Exec) linear(t *Term) (uint64, *Term) {
	if t.IsConst() {
		return t.Val, nil
	}
	if t.Op == "bvadd" {
		c0, r0 := ex.linear(t.Args[0])
		c1, r1 := ex.linear(t.Args[1])
		var r *Term
		switch {
		case r0 == nil:
			r = r1
		case r1 == nil:
			r = r0
		default:
			r = ex.c.Bin("bvadd", r0, r1)
		}
		return c0 + c1, r
	}
	return 0, t
}

func (ex *Exec) objContaining(c uint64) *Obj {
	// regions first (arbitrary bases), then Go objects by arithmetic
	for _, o := range ex.regions {
		if c >= o.base && c <= o.base+uint64(o.size) {
			return o
		}
	}
	for _, tab := range [][]*Obj{ex.objs, ex.constObjs} {
		if len(tab) == 0 {
			continue
		}
		b0 := tab[0].base - uint64(tab[0].id)*objSpacing
		if c >= b0 {
			i := int((c - b0) / objSpacing)
			// ids start at 1
			for _, o := range tab {
				if o.id == i {
					if c <= o.base+uint64(o.size) {
						return o
					}
					break
				}
			}
		}
	}
	return nil
}

func (ex *Exec) addrToPtr(a *Term) Ptr {
	if a.W != 64 {
		panic(unsupported("pointer from non-64-bit value"))
	}
	c, rest := ex.linear(a)
	if rest == nil && c == 0 {
		return ex.nilPtr()
	}
	if c != 0 {
		if o := ex.objContaining(c); o != nil {
			off := ex.c.Const(64, c-o.base)
			if rest != nil {
				off = ex.c.Bin("bvadd", off, rest)
			}
			return Ptr{obj: o, off: off}
		}
	}
	if rest == nil {
		return Ptr{off: a} // wild constant address
	}
	// ite over addresses: ite(c, A, B) where both resolve
	if a.Op == "ite" {
		pa := ex.addrToPtr(a.Args[1])
		pb := ex.addrToPtr(a.Args[2])
		if v, ok := ex.mergeValue(a.Args[0], pa, pb); ok {
			return v.(Ptr)
		}
		if ex.branch(a.Args[0]) {
			return pa
		}
		return pb
	}
	// fully symbolic address: solver-guided resolution over raw regions
	for _, o := range ex.regions {
		lo := ex.c.Const(64, o.base)
		hi := ex.c.Const(64, o.base+uint64(o.size))
		in := ex.c.And(ex.c.Cmp("bvule", lo, a), ex.c.Cmp("bvult", a, hi))
		if in.IsFalse() {
			continue
		}
		if ex.branch(in) {
			return Ptr{obj: o, off: ex.c.Bin("bvsub", a, lo)}
		}
	}
	if ex.branch(ex.c.Eq(a, ex.c.Const(64, 0))) {
		return ex.nilPtr()
	}
	return Ptr{off: a}
}

func (ex *Exec) ptrToAddr(p Ptr) *Term {
	if p.obj == nil {
		return p.off
	}
	return ex.c.Bin("bvadd", ex.c.Const(64, p.obj.base), p.off)
}

func (ex *Exec) ptrAdd(p Ptr, delta int64) Ptr {
	np := p
	np.off = ex.c.Bin("bvadd", p.off, ex.c.Const(64, uint64(delta)))
	if p.dims != nil {
		np.cbase += delta
	}
	return np
}

// ---------- value <-> bit-vector ----------

func (ex *Exec) toBV(v Value, size int64) *Term {
	switch x := v.(type) {
	case *Term:
		if x.W == 0 {
			return ex.c.BoolToBV(x, 8)
		}
		return x
	case Ptr:
		return ex.ptrToAddr(x)
	case Func:
		if x.fn == nil {
			return ex.c.Const(64, 0)
		}
	case *MapObj:
		if x == nil {
			return ex.c.Const(64, 0)
		}
	}
	panic(unsupported(fmt.Sprintf("reinterpreting %T as bytes", v)))
}

func (ex *Exec) byteOf(v Value, size int64, i int64) *Term {
	if f, ok := v.(Iface); ok && f.typ == nil {
		return ex.c.Const(8, 0)
	}
	bv := ex.toBV(v, size)
	return ex.c.Extract(bv, int(i*8+7), int(i*8))
}

func (ex *Exec) coerce(v Value, lt types.Type) Value {
	switch u := lt.Underlying().(type) {
	case *types.Pointer, *types.Chan:
		switch x := v.(type) {
		case Ptr:
			return x
		case *Term:
			return ex.addrToPtr(x)
		}
	case *types.Basic:
		switch {
		case u.Kind() == types.UnsafePointer:
			switch x := v.(type) {
			case Ptr:
				return x
			case *Term:
				return ex.addrToPtr(x)
			}
		case u.Info()&types.IsBoolean != 0:
			if x, ok := v.(*Term); ok {
				if x.W == 0 {
					return x
				}
				return ex.c.Not(ex.c.Eq(x, ex.c.Const(x.W, 0)))
			}
		case u.Info()&types.IsInteger != 0:
			switch x := v.(type) {
			case *Term:
				if x.W == 0 {
					return ex.c.BoolToBV(x, 8)
				}
				return x
			case Ptr:
				return ex.ptrToAddr(x)
			}
		}
	case *types.Signature:
		switch x := v.(type) {
		case Func:
			return x
		case *Term:
			if x.IsConst() && x.Val == 0 {
				return Func{}
			}
		}
	case *types.Map:
		switch x := v.(type) {
		case *MapObj:
			return x
		case *Term:
			if x.IsConst() && x.Val == 0 {
				return (*MapObj)(nil)
			}
		}
	case *types.Interface:
		if x, ok := v.(Iface); ok {
			return x
		}
	}
	panic(unsupported(fmt.Sprintf("reading %T as %s", v, lt)))
}

// ---------- bounds ----------

func (ex *Exec) limitOf(o *Obj) *Term {
	if o.limit != nil {
		return o.limit
	}
	return ex.c.Const(64, uint64(o.size))
}

func (ex *Exec) checkAccessP(p Ptr, size int64, write bool) {
	if p.safe && p.dims != nil && ex.lockWatch == nil && p.obj.limit == nil {
		return
	}
	ex.checkAccess(p.obj, p.off, size, write)
}

func (ex *Exec) checkAccess(o *Obj, off *Term, size int64, write bool) {
	if ex.lockWatch != nil {
		ex.checkWatch(o, off, size)
	}
	lim := ex.limitOf(o)
	end := ex.c.Bin("bvadd", off, ex.c.Const(64, uint64(size)))
	ok := ex.c.And(ex.c.Cmp("bvule", off, end), ex.c.Cmp("bvule", end, lim))
	if ok.IsTrue() {
		return
	}
	if !ex.branch(ok) {
		kind := "read"
		if write {
			kind = "write"
		}
		what := "object"
		if o.region {
			what = "region"
		}
		panic(pathAbort{kind: "violation", msg: fmt.Sprintf("out-of-bounds %s of %d bytes outside %s %q", kind, size, what, o.name)})
	}
}

// ---------- byte-level access ----------

// coveringCell returns the cell covering byte k and the index of k inside it.
func (o *Obj) coveringCell(k int64) (cell, int64, bool) {
	for d := int64(0); d < 16 && k-d >= 0; d++ {
		if c, ok := o.cells[k-d]; ok {
			if c.size > d {
				return c, d, true
			}
			if d == 0 {
				continue
			}
		}
	}
	return cell{}, 0, false
}

func (ex *Exec) defaultByte(o *Obj, off *Term) *Term {
	if o.arr == "" {
		return ex.c.Const(8, 0)
	}
	sel := ex.c.Select(o.arr, off)
	ex.noteSelect(sel)
	return sel
}

// byteAt reads the byte at concrete offset k (log entries applied).
func (ex *Exec) byteAt(o *Obj, k int64) *Term {
	var r *Term
	stamp := 0
	if c, d, ok := o.coveringCell(k); ok {
		r = ex.byteOf(c.v, c.size, d)
		stamp = c.stamp
	} else {
		r = ex.defaultByte(o, ex.c.Const(64, uint64(k)))
	}
	for i := stamp; i < len(o.log); i++ {
		e := o.log[i]
		if ex.c.MayEq(e.off, uint64(k)) {
			r = ex.c.Ite(ex.c.Eq(e.off, ex.c.Const(64, uint64(k))), e.val, r)
		}
	}
	return r
}

func (ex *Exec) logMayAlias(o *Obj, stamp int, k, size int64) bool {
	for i := stamp; i < len(o.log); i++ {
		for j := int64(0); j < size; j++ {
			if ex.c.MayEq(o.log[i].off, uint64(k+j)) {
				return true
			}
		}
	}
	return false
}

type cand struct {
	off   int64
	val   *Term
	stamp int
}

// byteSym reads the byte at a symbolic offset.
func (ex *Exec) byteSym(o *Obj, off *Term) *Term {
	if off.IsConst() {
		return ex.byteAt(o, int64(off.Val))
	}
	r := ex.defaultByte(o, off)
	var cands []cand
	umax := ex.c.UMax(off)
	for _, k := range o.sortedKeys() {
		if uint64(k) > umax {
			break
		}
		c := o.cells[k]
		for i := int64(0); i < c.size; i++ {
			if ex.c.MayEq(off, uint64(k+i)) {
				cands = append(cands, cand{k + i, ex.byteOf(c.v, c.size, i), c.stamp})
			}
		}
	}
	if len(cands) > ex.maxCands {
		ex.maxCands = len(cands)
	}
	if len(o.log) == 0 && len(cands) > 0 {
		// when the candidate cells cover every offset the access can have, the default is unreachable
		hi := umax
		if lim := ex.limitOf(o); lim.IsConst() && lim.Val > 0 && lim.Val-1 < hi {
			hi = lim.Val - 1
		}
		if hi < 1<<16 {
			cnt := 0
			for k := uint64(0); k <= hi; k++ {
				if ex.c.MayEq(off, k) {
					cnt++
				}
			}
			if cnt == len(cands) {
				r = cands[len(cands)-1].val
			}
		}
	}
	apply := func(lo, hi int) { // cands[lo:hi] share a stamp class boundary; group by value runs
		i := lo
		for i < hi {
			j := i + 1
			for j < hi && cands[j].val == cands[i].val {
				j++
			}
			var cond *Term
			if j-i >= 3 && ex.runIsDense(o, off, cands[i].off, cands[j-1].off, j-i) {
				cond = ex.c.And(ex.c.Cmp("bvule", ex.c.Const(64, uint64(cands[i].off)), off),
					ex.c.Cmp("bvule", off, ex.c.Const(64, uint64(cands[j-1].off))))
			} else {
				cond = ex.c.False()
				for k := i; k < j; k++ {
					cond = ex.c.Or(cond, ex.c.Eq(off, ex.c.Const(64, uint64(cands[k].off))))
				}
			}
			r = ex.c.Ite(cond, cands[i].val, r)
			i = j
		}
	}
	if len(o.log) == 0 {
		apply(0, len(cands))
		return r
	}
	// interleave with the log in time order
	sort.SliceStable(cands, func(i, j int) bool { return cands[i].stamp < cands[j].stamp })
	li := 0
	i := 0
	for i < len(cands) {
		j := i
		for j < len(cands) && cands[j].stamp == cands[i].stamp {
			j++
		}
		for ; li < cands[i].stamp && li < len(o.log); li++ {
			r = ex.c.Ite(ex.c.Eq(off, o.log[li].off), o.log[li].val, r)
		}
		sub := cands[i:j]
		sort.Slice(sub, func(a, b int) bool { return sub[a].off < sub[b].off })
		apply(i, j)
		i = j
	}
	for ; li < len(o.log); li++ {
		r = ex.c.Ite(ex.c.Eq(off, o.log[li].off), o.log[li].val, r)
	}
	return r
}

// runIsDense reports whether every offset in [a,b] that off may equal is among
// the n candidates of the run (so the run can be guarded by a range test).
func (ex *Exec) runIsDense(o *Obj, off *Term, a, b int64, n int) bool {
	if b-a > 1<<16 {
		return false
	}
	cnt := 0
	for k := a; k <= b; k++ {
		if ex.c.MayEq(off, uint64(k)) {
			cnt++
		}
	}
	return cnt == n
}

func (ex *Exec) explode(o *Obj, k int64) {
	c := o.cells[k]
	if c.size == 1 {
		return
	}
	for i := int64(0); i < c.size; i++ {
		o.cells[k+i] = cell{1, ex.byteOf(c.v, c.size, i), c.stamp}
	}
}

// clearRange removes/splits cells overlapping [off, off+size) so that a new cell can be placed.
func (ex *Exec) clearRange(o *Obj, off, size int64) {
	for d := int64(1); d < 16 && off-d >= 0; d++ {
		if c, ok := o.cells[off-d]; ok && c.size > d {
			ex.explode(o, off-d)
		}
	}
	for k := off; k < off+size; k++ {
		if c, ok := o.cells[k]; ok {
			if k+c.size > off+size {
				ex.explode(o, k)
			}
		}
	}
	for k := off; k < off+size; k++ {
		delete(o.cells, k)
	}
}

// ---------- leaf access ----------

func (ex *Exec) loadLeafAt(o *Obj, off, size int64, lt types.Type) Value {
	if c, ok := o.cells[off]; ok && c.size == size && !ex.logMayAlias(o, c.stamp, off, size) {
		return ex.coerce(c.v, lt)
	}
	// absent and nothing overlapping: typed zero / symbolic default
	overl := false
	for k := off; k < off+size && !overl; k++ {
		if _, _, ok := o.coveringCell(k); ok {
			overl = true
		}
	}
	if !overl && o.arr == "" && !ex.logMayAlias(o, 0, off, size) {
		return ex.zeroOf(lt)
	}
	if size > 8 {
		panic(unsupported(fmt.Sprintf("byte-wise load of %d-byte leaf %s", size, lt)))
	}
	var v *Term
	for i := int64(0); i < size; i++ {
		b := ex.byteAt(o, off+i)
		if v == nil {
			v = b
		} else {
			v = ex.c.Concat(b, v)
		}
	}
	return ex.coerce(v, lt)
}

func (ex *Exec) normForStore(v Value) Value {
	if t, ok := v.(*Term); ok && t.W == 0 {
		return ex.c.BoolToBV(t, 8)
	}
	return v
}

func (ex *Exec) storeLeafAt(o *Obj, off, size int64, v Value) {
	o.touch(ex)
	v = ex.normForStore(v)
	if c, ok := o.cells[off]; !(ok && c.size == size) {
		ex.clearRange(o, off, size)
	} else if size > 1 {
		// exact replacement; nothing else can overlap by invariant
	}
	o.cells[off] = cell{size, v, len(o.log)}
}

func (ex *Exec) loadLeafSym(o *Obj, off *Term, size int64, lt types.Type) Value {
	if off.IsConst() {
		return ex.loadLeafAt(o, int64(off.Val), size, lt)
	}
	if size > 8 {
		panic(unsupported(fmt.Sprintf("symbolic-offset load of %d-byte leaf %s", size, lt)))
	}
	var v *Term
	for i := int64(0); i < size; i++ {
		b := ex.byteSym(o, ex.c.Bin("bvadd", off, ex.c.Const(64, uint64(i))))
		if v == nil {
			v = b
		} else {
			v = ex.c.Concat(b, v)
		}
	}
	return ex.coerce(v, lt)
}

func (ex *Exec) storeLeafSym(o *Obj, off *Term, size int64, v Value) {
	if off.IsConst() {
		ex.storeLeafAt(o, int64(off.Val), size, v)
		return
	}
	if size > 8 {
		panic(unsupported("symbolic-offset store of wide leaf"))
	}
	o.touch(ex)
	bv := ex.toBV(ex.normForStore(v), size)
	for i := int64(0); i < size; i++ {
		o.log = append(o.log, logEntry{ex.c.Bin("bvadd", off, ex.c.Const(64, uint64(i))), ex.c.Extract(bv, int(i*8+7), int(i*8))})
	}
}

// ---------- typed access ----------

type leafRd func(off, size int64, lt types.Type) Value
type leafWr func(off, size int64, lt types.Type, v Value)

func structOffsets(u *types.Struct) []int64 {
	fs := make([]*types.Var, u.NumFields())
	for i := range fs {
		fs[i] = u.Field(i)
	}
	return sizes.Offsetsof(fs)
}

func (ex *Exec) loadType(t types.Type, rd leafRd, base int64) Value {
	switch u := t.Underlying().(type) {
	case *types.Struct:
		offs := structOffsets(u)
		a := make(Agg, u.NumFields())
		for i := range a {
			a[i] = ex.loadType(u.Field(i).Type(), rd, base+offs[i])
		}
		return a
	case *types.Array:
		es := sizeof(u.Elem())
		a := make(Agg, u.Len())
		for i := range a {
			a[i] = ex.loadType(u.Elem(), rd, base+int64(i)*es)
		}
		return a
	case *types.Slice:
		p := rd(base, 8, types.Typ[types.UnsafePointer]).(Ptr)
		l := rd(base+8, 8, types.Typ[types.Int]).(*Term)
		c := rd(base+16, 8, types.Typ[types.Int]).(*Term)
		return Slice{p, l, c}
	case *types.Basic:
		if u.Info()&types.IsString != 0 {
			p := rd(base, 8, types.Typ[types.UnsafePointer]).(Ptr)
			l := rd(base+8, 8, types.Typ[types.Int]).(*Term)
			return Str{p, l}
		}
	}
	return rd(base, sizeof(t), t)
}

func (ex *Exec) storeType(t types.Type, v Value, wr leafWr, base int64) {
	switch u := t.Underlying().(type) {
	case *types.Struct:
		offs := structOffsets(u)
		a := v.(Agg)
		for i := range a {
			ex.storeType(u.Field(i).Type(), a[i], wr, base+offs[i])
		}
		return
	case *types.Array:
		es := sizeof(u.Elem())
		a := v.(Agg)
		for i := range a {
			ex.storeType(u.Elem(), a[i], wr, base+int64(i)*es)
		}
		return
	case *types.Slice:
		s := v.(Slice)
		wr(base, 8, types.Typ[types.UnsafePointer], s.p)
		wr(base+8, 8, types.Typ[types.Int], s.len)
		wr(base+16, 8, types.Typ[types.Int], s.cap)
		return
	case *types.Basic:
		if u.Info()&types.IsString != 0 {
			s := v.(Str)
			wr(base, 8, types.Typ[types.UnsafePointer], s.p)
			wr(base+8, 8, types.Typ[types.Int], s.len)
			return
		}
	}
	wr(base, sizeof(t), t, v)
}

func (ex *Exec) derefCheck(p Ptr) {
	if p.obj == nil {
		if p.isNilConst() {
			panic(ex.runtimePanic("invalid memory address or nil pointer dereference"))
		}
		// wild address: nil or unmapped
		if ex.branch(ex.c.Eq(p.off, ex.c.Const(64, 0))) {
			panic(ex.runtimePanic("invalid memory address or nil pointer dereference"))
		}
		panic(pathAbort{kind: "violation", msg: "dereference of an address outside every object/region"})
	}
}

func (ex *Exec) dimTuples(p Ptr, f func(cond *Term, off int64, last bool) bool) {
	n := len(p.dims)
	idx := make([]int64, n)
	total := int64(1)
	for _, d := range p.dims {
		total *= d.count
	}
	if total > 4096 {
		panic(unsupported(fmt.Sprintf("symbolic index over %d candidates", total)))
	}
	for t := int64(0); t < total; t++ {
		cond := ex.c.True()
		off := p.cbase
		for k, d := range p.dims {
			cond = ex.c.And(cond, ex.c.Eq(d.idx, ex.c.Const(64, uint64(idx[k]))))
			off += idx[k] * d.stride
		}
		if !cond.IsFalse() {
			if !f(cond, off, t == total-1) {
				return
			}
		}
		for k := n - 1; k >= 0; k-- {
			idx[k]++
			if idx[k] < p.dims[k].count {
				break
			}
			idx[k] = 0
		}
	}
}

// concretizeOff forks over the feasible values of a symbolic offset (solver-guided
// pointer resolution) when the harness asked for it; after N values the offset stays symbolic.
func (ex *Exec) concretizeOff(p Ptr) Ptr {
	if ex.cfg.ConcretizeN <= 0 || p.off.IsConst() || p.dims != nil || ex.guard != nil || p.obj == nil {
		return p
	}
	for i := 0; i < ex.cfg.ConcretizeN; i++ {
		var v uint64
		if rec, ok := ex.auxChoice(); ok {
			if rec.GaveUp {
				return p
			}
			v = rec.V
		} else {
			ex.flushAsserts()
			if ex.model == nil {
				r, m := ex.sol.Check(nil, true, ex.syms, ex.selects)
				if r == "sat" {
					ex.model = m
				}
			}
			ok := ex.model != nil
			if ok {
				ex.model.Miss = false
				v = smt.Eval(p.off, ex.model, map[int]uint64{})
				ok = !ex.model.Miss
			}
			if !ok {
				ex.auxRecord(AuxRec{Site: ex.instrs, GaveUp: true})
				return p
			}
			ex.auxRecord(AuxRec{Site: ex.instrs, V: v})
		}
		k := ex.c.Const(64, v)
		if ex.branch(ex.c.Eq(p.off, k)) {
			return Ptr{obj: p.obj, off: k}
		}
	}
	return p
}

// concretizeModel forks over up to n feasible values of x, chosen from solver models (recorded in the trail).
func (ex *Exec) concretizeModel(x *Term, n int) *Term {
	if x.IsConst() || ex.guard != nil {
		return x
	}
	for i := 0; i < n; i++ {
		var v uint64
		if rec, ok := ex.auxChoice(); ok {
			if rec.GaveUp {
				return x
			}
			v = rec.V
		} else {
			ex.flushAsserts()
			if ex.model == nil {
				r, m := ex.sol.Check(nil, true, ex.syms, ex.selects)
				if r == "sat" {
					ex.model = m
				}
			}
			ok := ex.model != nil
			if ok {
				ex.model.Miss = false
				v = smt.Eval(x, ex.model, map[int]uint64{})
				ok = !ex.model.Miss
			}
			if !ok {
				ex.auxRecord(AuxRec{Site: ex.instrs, GaveUp: true})
				return x
			}
			ex.auxRecord(AuxRec{Site: ex.instrs, V: v})
		}
		k := ex.c.Const(x.W, v)
		if ex.branch(ex.c.Eq(x, k)) {
			return k
		}
	}
	return x
}

// load reads a value of type t through p.
func (ex *Exec) load(p Ptr, t types.Type) Value {
	ex.derefCheck(p)
	p = ex.concretizeOff(p)
	o := p.obj
	size := sizeof(t)
	if size == 0 {
		return ex.zeroOf(t)
	}
	ex.checkAccessP(p, size, false)
	if p.dims != nil {
		var res Value
		have := false
		var forkConds []*Term
		var forkVals []Value
		ex.dimTuples(p, func(cond *Term, off int64, last bool) bool {
			if off+size > o.size {
				return true
			}
			v := ex.loadType(t, func(lo, ls int64, lt types.Type) Value { return ex.loadLeafAt(o, lo, ls, lt) }, off)
			forkConds = append(forkConds, cond)
			forkVals = append(forkVals, v)
			return true
		})
		// merge from the back
		mergeOK := true
		for i := len(forkVals) - 1; i >= 0; i-- {
			if !have {
				res, have = forkVals[i], true
				continue
			}
			m, ok := ex.mergeValue(forkConds[i], forkVals[i], res)
			if !ok {
				mergeOK = false
				break
			}
			res = m
		}
		if mergeOK && have {
			return res
		}
		if ex.guard != nil {
			panic(unsupported("pointer-valued symbolic index inside merged arm"))
		}
		for i := range forkVals {
			if i == len(forkVals)-1 || ex.branch(forkConds[i]) {
				if i == len(forkVals)-1 {
					ex.assume(forkConds[i])
				}
				return forkVals[i]
			}
		}
		panic(pathAbort{kind: "infeasible"})
	}
	if p.off.IsConst() {
		return ex.loadType(t, func(lo, ls int64, lt types.Type) Value { return ex.loadLeafAt(o, lo, ls, lt) }, int64(p.off.Val))
	}
	return ex.loadType(t, func(lo, ls int64, lt types.Type) Value {
		return ex.loadLeafSym(o, ex.c.Bin("bvadd", p.off, ex.c.Const(64, uint64(lo))), ls, lt)
	}, 0)
}

// store writes v of type t through p.
func (ex *Exec) store(p Ptr, t types.Type, v Value) {
	ex.derefCheck(p)
	p = ex.concretizeOff(p)
	o := p.obj
	size := sizeof(t)
	if size == 0 {
		return
	}
	ex.checkAccessP(p, size, true)
	if ex.guard != nil {
		old := ex.load(p, t)
		m, ok := ex.mergeValue(ex.guard, v, old)
		if !ok {
			panic(unsupported("guarded store of unmergeable value"))
		}
		v = m
	}
	if p.dims != nil {
		type upd struct {
			cond *Term
			off  int64
		}
		var ups []upd
		ex.dimTuples(p, func(cond *Term, off int64, last bool) bool {
			if off+size <= o.size {
				ups = append(ups, upd{cond, off})
			}
			return true
		})
		var news []Value
		ok := true
		for _, u := range ups {
			old := ex.loadType(t, func(lo, ls int64, lt types.Type) Value { return ex.loadLeafAt(o, lo, ls, lt) }, u.off)
			m, good := ex.mergeValue(u.cond, v, old)
			if !good {
				ok = false
				break
			}
			news = append(news, m)
		}
		if ok {
			for i, u := range ups {
				ex.storeType(t, news[i], func(lo, ls int64, lt types.Type, lv Value) { ex.storeLeafAt(o, lo, ls, lv) }, u.off)
			}
			return
		}
		if ex.guard != nil {
			panic(unsupported("forking store inside merged arm"))
		}
		for i, u := range ups {
			if i == len(ups)-1 || ex.branch(u.cond) {
				if i == len(ups)-1 {
					ex.assume(u.cond)
				}
				ex.storeType(t, v, func(lo, ls int64, lt types.Type, lv Value) { ex.storeLeafAt(o, lo, ls, lv) }, u.off)
				return
			}
		}
		panic(pathAbort{kind: "infeasible"})
	}
	if p.off.IsConst() {
		ex.storeType(t, v, func(lo, ls int64, lt types.Type, lv Value) { ex.storeLeafAt(o, lo, ls, lv) }, int64(p.off.Val))
		return
	}
	ex.storeType(t, v, func(lo, ls int64, lt types.Type, lv Value) {
		ex.storeLeafSym(o, ex.c.Bin("bvadd", p.off, ex.c.Const(64, uint64(lo))), ls, lv)
	}, 0)
}

// initZero populates typed zero cells so that symbolic-index accesses find candidates.
func (ex *Exec) initZero(o *Obj, t types.Type, base int64) {
	ex.storeType(t, ex.zeroOf(t), func(lo, ls int64, lt types.Type, lv Value) {
		o.cells[lo] = cell{ls, ex.normForStore(lv), 0}
	}, base)
	o.keysValid = false
}
