package gosym

import (
	"fmt"
	"go/ast"
	"go/types"
	"os"
	"path/filepath"
	"sort"
	"strings"
	"time"

	"golang.org/x/tools/go/packages"
	"golang.org/x/tools/go/ssa"
	"golang.org/x/tools/go/ssa/ssautil"

	"verif/engine/smt"
)

// KernelDir is the kernel module checked; VERIF_KERNEL_DIR redirects development runs to a scratch worktree
// (registered commands never set it: they always check /repo).
var KernelDir = func() string {
	if d := os.Getenv("VERIF_KERNEL_DIR"); d != "" {
		return d
	}
	return "/repo/kernel"
}()

const KernelMod = "github.com/ProjectSerenity/firefly/kernel"

// Harness describes one Verif_<id>_<name> function and its directives.
type Harness struct {
	Fn              *ssa.Function
	Name            string
	Property        string
	Pkg             string
	Tier            string // "" (both) | "thorough"
	Backend         string
	Split           int // frontier depth for partitioning
	Budget          int64
	Depth           int
	Bounds          []string
	Assumes         []string
	Overrides       [][2]string
	BudgetViolation bool
	NoMerge         bool
	SoftMS          int
	ConcretizeN     int
	MaxDecisions    int
}

type Loaded struct {
	Prog      *ssa.Program
	Pkgs      []*packages.Package
	Harnesses []*Harness
	globIndex map[*ssa.Global]int
	FileHeads map[string][]string // harness file -> header directives
}

// BuildOverlay maps harness files under harnessDir into /repo/kernel.
func BuildOverlay(harnessDir string, native bool) (map[string][]byte, []string, error) {
	ov := map[string][]byte{}
	var dirs []string
	seen := map[string]bool{}
	err := filepath.Walk(harnessDir, func(p string, info os.FileInfo, err error) error {
		if err != nil || info.IsDir() || !strings.HasSuffix(p, ".go") {
			return err
		}
		rel, _ := filepath.Rel(harnessDir, p)
		dir := filepath.Dir(rel)
		base := filepath.Base(rel)
		if dir == "zzverif" {
			if (native && base == "sym.go") || (!native && base == "native.go") {
				return nil
			}
		}
		b, err := os.ReadFile(p)
		if err != nil {
			return err
		}
		ov[filepath.Join(KernelDir, rel)] = b
		if !seen[dir] {
			seen[dir] = true
			dirs = append(dirs, dir)
		}
		return nil
	})
	sort.Strings(dirs)
	return ov, dirs, err
}

// PropertyDirs returns the package dirs (relative to kernel/) that hold harnesses for prop.
func PropertyDirs(harnessDir, prop string) ([]string, error) {
	var dirs []string
	seen := map[string]bool{}
	err := filepath.Walk(harnessDir, func(p string, info os.FileInfo, err error) error {
		if err != nil || info.IsDir() || !strings.HasSuffix(p, ".go") {
			return err
		}
		b, err := os.ReadFile(p)
		if err != nil {
			return err
		}
		if strings.Contains(string(b), "func Verif_"+prop+"_") {
			rel, _ := filepath.Rel(harnessDir, filepath.Dir(p))
			if !seen[rel] {
				seen[rel] = true
				dirs = append(dirs, rel)
			}
		}
		return nil
	})
	sort.Strings(dirs)
	return dirs, err
}

func Load(harnessDir string, pkgDirs []string) (*Loaded, error) {
	ov, _, err := BuildOverlay(harnessDir, false)
	if err != nil {
		return nil, err
	}
	var patterns []string
	for _, d := range pkgDirs {
		patterns = append(patterns, "./"+d)
	}
	cfg := &packages.Config{
		Mode:       packages.LoadAllSyntax,
		Dir:        KernelDir,
		BuildFlags: []string{"-tags=verif"},
		Env:        append(os.Environ(), "GOFLAGS=-mod=mod", "GOPROXY=off", "GOSUMDB=off", "GOTOOLCHAIN=local", "GOWORK=off"),
		Overlay:    ov,
	}
	pkgs, err := packages.Load(cfg, patterns...)
	if err != nil {
		return nil, err
	}
	var errs []string
	packages.Visit(pkgs, nil, func(p *packages.Package) {
		for _, e := range p.Errors {
			errs = append(errs, e.Error())
		}
	})
	if len(errs) > 0 {
		return nil, fmt.Errorf("package errors (harness does not build against the current tree):\n%s", strings.Join(errs, "\n"))
	}
	prog, spkgs := ssautil.AllPackages(pkgs, ssa.InstantiateGenerics)
	prog.Build()
	ld := &Loaded{Prog: prog, Pkgs: pkgs, globIndex: map[*ssa.Global]int{}}
	// deterministic global numbering
	var globs []*ssa.Global
	for _, p := range prog.AllPackages() {
		for _, m := range p.Members {
			if g, ok := m.(*ssa.Global); ok {
				globs = append(globs, g)
			}
		}
	}
	sort.Slice(globs, func(i, j int) bool { return globs[i].String() < globs[j].String() })
	for i, g := range globs {
		ld.globIndex[g] = i
	}
	for i, sp := range spkgs {
		if sp == nil {
			continue
		}
		pk := pkgs[i]
		for name, m := range sp.Members {
			fn, ok := m.(*ssa.Function)
			if !ok || !strings.HasPrefix(name, "Verif_") {
				continue
			}
			parts := strings.SplitN(name, "_", 3)
			if len(parts) < 3 {
				continue
			}
			h := &Harness{Fn: fn, Name: name, Property: parts[1], Pkg: pk.PkgPath}
			var file *ast.File
			if fd, ok := fn.Syntax().(*ast.FuncDecl); ok {
				for _, f := range pk.Syntax {
					if f.Pos() <= fd.Pos() && fd.End() <= f.End() {
						file = f
					}
				}
				if fd.Doc != nil {
					for _, cm := range fd.Doc.List {
						h.directive(cm.Text)
					}
				}
			}
			if file != nil {
				for _, cg := range file.Comments {
					if cg.End() > file.Package {
						break
					}
					for _, cm := range cg.List {
						h.fileDirective(cm.Text)
					}
				}
			}
			ld.Harnesses = append(ld.Harnesses, h)
		}
	}
	sort.Slice(ld.Harnesses, func(i, j int) bool { return ld.Harnesses[i].Name < ld.Harnesses[j].Name })
	return ld, nil
}

func (h *Harness) fileDirective(text string) {
	t := strings.TrimSpace(strings.TrimPrefix(text, "//"))
	switch {
	case strings.HasPrefix(t, "verif:bounds "):
		h.Bounds = append(h.Bounds, strings.TrimPrefix(t, "verif:bounds "))
	case strings.HasPrefix(t, "verif:assumes "):
		h.Assumes = append(h.Assumes, strings.TrimPrefix(t, "verif:assumes "))
	case strings.HasPrefix(t, "verif:override "):
		f := strings.Fields(strings.TrimPrefix(t, "verif:override "))
		if len(f) == 2 {
			h.Overrides = append(h.Overrides, [2]string{f[0], f[1]})
		}
	case strings.HasPrefix(t, "verif:backend "):
		if h.Backend == "" {
			h.Backend = strings.TrimSpace(strings.TrimPrefix(t, "verif:backend "))
		}
	}
}

func (h *Harness) directive(text string) {
	t := strings.TrimSpace(strings.TrimPrefix(text, "//"))
	switch {
	case strings.HasPrefix(t, "verif:tier "):
		h.Tier = strings.TrimSpace(strings.TrimPrefix(t, "verif:tier "))
	case strings.HasPrefix(t, "verif:backend "):
		h.Backend = strings.TrimSpace(strings.TrimPrefix(t, "verif:backend "))
	case strings.HasPrefix(t, "verif:split "):
		fmt.Sscanf(strings.TrimPrefix(t, "verif:split "), "%d", &h.Split)
	case strings.HasPrefix(t, "verif:budget "):
		fmt.Sscanf(strings.TrimPrefix(t, "verif:budget "), "%d", &h.Budget)
	case strings.HasPrefix(t, "verif:depth "):
		fmt.Sscanf(strings.TrimPrefix(t, "verif:depth "), "%d", &h.Depth)
	case strings.HasPrefix(t, "verif:softms "):
		fmt.Sscanf(strings.TrimPrefix(t, "verif:softms "), "%d", &h.SoftMS)
	case strings.HasPrefix(t, "verif:maxdecisions "):
		fmt.Sscanf(strings.TrimPrefix(t, "verif:maxdecisions "), "%d", &h.MaxDecisions)
	case strings.HasPrefix(t, "verif:concretize "):
		fmt.Sscanf(strings.TrimPrefix(t, "verif:concretize "), "%d", &h.ConcretizeN)
	case t == "verif:budget-is-violation":
		h.BudgetViolation = true
	case t == "verif:nomerge":
		h.NoMerge = true
	default:
		h.fileDirective(text)
	}
}

// NewExec creates an executor with its own term table and solver, and runs package initialisers.
func NewExec(ld *Loaded, h *Harness, cfg Config) (*Exec, error) {
	ex := &Exec{
		prog: ld.Prog, c: smt.NewCtx(), cfg: cfg, ld: ld,
		strObjs: map[string]*Obj{}, globObjs: map[*ssa.Global]*Obj{}, globIndex: ld.globIndex,
		selSeen: map[int]bool{}, symCount: map[string]int{}, overrides: map[*ssa.Function]*ssa.Function{},
		initDone: map[*ssa.Package]bool{},
	}
	ex.sol = smt.NewSolver(cfg.Backend, cfg.SoftMS, cfg.HardS, cfg.Scratch)
	if d := os.Getenv("VERIF_SMTLOG"); d != "" {
		f, _ := os.Create(filepath.Join(d, fmt.Sprintf("%s-%d.smt2", h.Name, time.Now().UnixNano())))
		ex.sol.Log = f
	}
	for _, ov := range h.Overrides {
		from := ex.findFunc(ov[0])
		to := ex.findFunc(h.Pkg + "." + ov[1])
		if from == nil || to == nil {
			return nil, fmt.Errorf("override %s -> %s: function not found", ov[0], ov[1])
		}
		ex.overrides[from] = to
	}
	// package initialisation (concrete), once
	ex.res = &Result{PathEnds: map[string]int{}, AssertSites: map[string]int{}, Reach: map[string]int{},
		KnownHits: map[string]string{}, Funcs: map[string]bool{}, Intrinsics: map[string]bool{}, Assumes: map[string]int{}}
	ex.inInit = true
	var initErr error
	func() {
		defer func() {
			if r := recover(); r != nil {
				switch e := r.(type) {
				case unsupportedErr:
					initErr = fmt.Errorf("package init: unsupported: %s", e.what)
				case pathAbort:
					initErr = fmt.Errorf("package init: %s %s", e.kind, e.msg)
				case *goPanic:
					initErr = fmt.Errorf("package init panicked: %s", e.msg)
				default:
					panic(r)
				}
			}
		}()
		saveOv := ex.overrides
		ex.overrides = map[*ssa.Function]*ssa.Function{}
		if init := h.Fn.Pkg.Func("init"); init != nil {
			ex.initDone[h.Fn.Pkg] = true
			ex.call(Func{fn: init}, nil)
		}
		ex.overrides = saveOv
	}()
	ex.inInit = false
	if initErr != nil {
		ex.sol.Close()
		return nil, initErr
	}
	if len(ex.stack) != 0 || ex.depth != 0 {
		ex.sol.Close()
		return nil, fmt.Errorf("package init took symbolic decisions")
	}
	ex.snapshot()
	return ex, nil
}

func (ex *Exec) Close() { ex.sol.Close() }

func (ex *Exec) findFunc(qual string) *ssa.Function {
	// qual: pkgpath.Func or (pkgpath.Type).Method / (*pkgpath.Type).Method
	i := strings.LastIndex(qual, ".")
	if i < 0 {
		return nil
	}
	pkgPath, name := qual[:i], qual[i+1:]
	if strings.HasPrefix(pkgPath, "(") {
		// method: (*pkg.T).M or (pkg.T).M
		recv := strings.Trim(pkgPath, "()")
		ptr := strings.HasPrefix(recv, "*")
		recv = strings.TrimPrefix(recv, "*")
		j := strings.LastIndex(recv, ".")
		if j < 0 {
			return nil
		}
		p := ex.prog.ImportedPackage(recv[:j])
		if p == nil {
			return nil
		}
		tn := p.Type(recv[j+1:])
		if tn == nil {
			return nil
		}
		var t = tn.Type()
		ms := ex.prog.MethodSets.MethodSet(t)
		if ptr {
			ms = ex.prog.MethodSets.MethodSet(typesPointer(t))
		}
		for k := 0; k < ms.Len(); k++ {
			if ms.At(k).Obj().Name() == name {
				return ex.prog.MethodValue(ms.At(k))
			}
		}
		return nil
	}
	p := ex.prog.ImportedPackage(pkgPath)
	if p == nil {
		return nil
	}
	return p.Func(name)
}

func typesPointer(t types.Type) types.Type { return types.NewPointer(t) }
