package gosym

import (
	"fmt"
	"go/types"
	"os"
	"strings"

	"golang.org/x/tools/go/ssa"
)

func (ex *Exec) builtin(fr *Frame, b *ssa.Builtin, args []Value, cc *ssa.CallCommon) Value {
	c := ex.c
	switch b.Name() {
	case "len":
		switch a := args[0].(type) {
		case Slice:
			return a.len
		case Str:
			return a.len
		case *MapObj:
			if a == nil {
				return c.Const(64, 0)
			}
			return c.Const(64, uint64(len(a.entries)))
		case Ptr: // *array
			at := cc.Args[0].Type().Underlying().(*types.Pointer).Elem().Underlying().(*types.Array)
			return c.Const(64, uint64(at.Len()))
		case Agg:
			return c.Const(64, uint64(len(a)))
		}
	case "cap":
		switch a := args[0].(type) {
		case Slice:
			return a.cap
		case Agg:
			return c.Const(64, uint64(len(a)))
		case Ptr:
			at := cc.Args[0].Type().Underlying().(*types.Pointer).Elem().Underlying().(*types.Array)
			return c.Const(64, uint64(at.Len()))
		}
	case "copy":
		return ex.copyBuiltin(args[0].(Slice), args[1], cc)
	case "append":
		return ex.appendBuiltin(args[0].(Slice), args[1], cc)
	case "recover":
		if len(ex.panicking) > 0 {
			gp := ex.panicking[len(ex.panicking)-1]
			if !gp.recovered {
				gp.recovered = true
				return gp.val
			}
		}
		return Iface{}
	case "print", "println":
		return nil
	case "delete":
		m := args[0].(*MapObj)
		if m == nil {
			return nil
		}
		for i := 0; i < len(m.entries); i++ {
			if ex.branch(ex.valueEq(m.entries[i].k, args[1], m.keyT)) {
				m.entries = append(m.entries[:i:i], m.entries[i+1:]...)
				return nil
			}
		}
		return nil
	case "min", "max":
		r := args[0].(*Term)
		t := cc.Args[0].Type()
		for _, a := range args[1:] {
			x := a.(*Term)
			var lt *Term
			if isUnsigned(t) {
				lt = c.Cmp("bvult", x, r)
			} else {
				lt = c.Cmp("bvslt", x, r)
			}
			if b.Name() == "max" {
				lt = c.Not(c.Or(lt, c.Eq(x, r)))
			}
			r = c.Ite(lt, x, r)
		}
		return r
	case "ssa:wrapnilchk":
		p := args[0].(Ptr)
		if p.obj == nil {
			ex.derefCheck(p)
		}
		return p
	case "Add": // unsafe.Add
		p := args[0].(Ptr)
		d := ex.toInt64(args[1].(*Term), cc.Args[1].Type())
		np := Ptr{obj: p.obj, off: c.Bin("bvadd", p.off, d)}
		return np
	case "Slice": // unsafe.Slice(ptr, len)
		p := args[0].(Ptr)
		n := ex.toInt64(args[1].(*Term), cc.Args[1].Type())
		return Slice{p, n, n}
	case "String": // unsafe.String(ptr, len)
		p := args[0].(Ptr)
		n := ex.toInt64(args[1].(*Term), cc.Args[1].Type())
		return Str{p, n}
	case "StringData":
		return args[0].(Str).p
	case "SliceData":
		return args[0].(Slice).p
	case "clear":
		switch a := args[0].(type) {
		case *MapObj:
			if a != nil {
				a.entries = nil
			}
			return nil
		}
	}
	panic(unsupported("builtin " + b.Name()))
}

func (ex *Exec) elemType(t types.Type) types.Type {
	switch u := t.Underlying().(type) {
	case *types.Slice:
		return u.Elem()
	case *types.Basic:
		return types.Typ[types.Uint8]
	}
	panic(unsupported("elem type of " + t.String()))
}

func (ex *Exec) copyBuiltin(dst Slice, srcV Value, cc *ssa.CallCommon) Value {
	c := ex.c
	var sp Ptr
	var sl *Term
	switch s := srcV.(type) {
	case Slice:
		sp, sl = s.p, s.len
	case Str:
		sp, sl = s.p, s.len
	}
	et := ex.elemType(cc.Args[0].Type())
	es := sizeof(et)
	n := c.Ite(c.Cmp("bvult", sl, dst.len), sl, dst.len)
	k := ex.concretize(n, 8192, "copy length")
	if k == 0 {
		return c.Const(64, 0)
	}
	ex.copyElems(dst.p, sp, int64(k), et, es)
	return c.Const(64, k)
}

// copyElems copies k elements with memmove semantics.
func (ex *Exec) copyElems(dp, sp Ptr, k int64, et types.Type, es int64) {
	if k > 64 && es == 1 {
		if ex.fastByteCopy(dp, sp, k) {
			return
		}
	}
	vals := make([]Value, k)
	for i := int64(0); i < k; i++ {
		vals[i] = ex.load(ex.ptrAdd(sp, i*es), et)
	}
	for i := int64(0); i < k; i++ {
		ex.store(ex.ptrAdd(dp, i*es), et, vals[i])
	}
}

// fastByteCopy handles large concrete-offset byte copies without per-byte bounds queries.
func (ex *Exec) fastByteCopy(dp, sp Ptr, k int64) bool {
	if dp.obj == nil || sp.obj == nil || !dp.off.IsConst() || !sp.off.IsConst() || dp.dims != nil || sp.dims != nil {
		return false
	}
	if ex.guard != nil || ex.lockWatch != nil {
		return false
	}
	ex.checkAccess(sp.obj, sp.off, k, false)
	ex.checkAccess(dp.obj, dp.off, k, true)
	so, do := int64(sp.off.Val), int64(dp.off.Val)
	vals := make([]*Term, k)
	for i := int64(0); i < k; i++ {
		vals[i] = ex.byteAt(sp.obj, so+i)
	}
	dp.obj.touch(ex)
	for i := int64(0); i < k; i++ {
		if c, ok := dp.obj.cells[do+i]; !(ok && c.size == 1) {
			ex.clearRange(dp.obj, do+i, 1)
		}
		dp.obj.cells[do+i] = cell{1, vals[i], len(dp.obj.log)}
	}
	return true
}

func (ex *Exec) appendBuiltin(s Slice, addV Value, cc *ssa.CallCommon) Value {
	c := ex.c
	et := ex.elemType(cc.Args[0].Type())
	es := sizeof(et)
	var ap Ptr
	var al *Term
	switch a := addV.(type) {
	case Slice:
		ap, al = a.p, a.len
	case Str:
		ap, al = a.p, a.len
	}
	n := int64(ex.concretize(s.len, 4096, "append: len"))
	m := int64(ex.concretize(al, 4096, "append: added len"))
	if m == 0 {
		return s
	}
	cp := int64(ex.concretize(s.cap, 8192, "append: cap"))
	if n+m <= cp {
		ex.copyElems(ex.ptrAdd(s.p, n*es), ap, m, et, es)
		return Slice{s.p, c.Const(64, uint64(n+m)), s.cap}
	}
	ncap := 2 * cp
	if ncap < n+m {
		ncap = n + m
	}
	o := ex.newObj(ncap*es, "append")
	np := Ptr{obj: o, off: c.Const(64, 0)}
	if n > 0 {
		ex.copyElems(np, s.p, n, et, es)
	}
	ex.copyElems(ex.ptrAdd(np, n*es), ap, m, et, es)
	return Slice{np, c.Const(64, uint64(n+m)), c.Const(64, uint64(ncap))}
}

// ---------- maps ----------

func (ex *Exec) mapUpdate(m *MapObj, k, v Value) {
	if m == nil {
		panic(ex.runtimePanic("assignment to entry in nil map"))
	}
	for i := range m.entries {
		if ex.branch(ex.valueEq(m.entries[i].k, k, m.keyT)) {
			ne := append([]mapEntry(nil), m.entries...)
			ne[i].v = v
			m.entries = ne
			return
		}
	}
	m.entries = append(m.entries[:len(m.entries):len(m.entries)], mapEntry{k, v})
}

func (ex *Exec) lookup(fr *Frame, x *ssa.Lookup) Value {
	c := ex.c
	switch xv := ex.get(fr, x.X).(type) {
	case Str:
		idx := ex.toInt64(ex.get(fr, x.Index).(*Term), x.Index.Type())
		if !ex.require(c.Cmp("bvult", idx, xv.len)) {
			panic(ex.runtimePanicAt("index out of range", x.Pos()))
		}
		return ex.load(ex.elemPtr(xv.p, idx, xv.len, 1), types.Typ[types.Uint8])
	case *MapObj:
		k := ex.get(fr, x.Index)
		mt := x.X.Type().Underlying().(*types.Map)
		if xv != nil {
			for i := range xv.entries {
				if ex.branch(ex.valueEq(xv.entries[i].k, k, mt.Key())) {
					if x.CommaOk {
						return Agg{xv.entries[i].v, c.True()}
					}
					return xv.entries[i].v
				}
			}
		}
		if x.CommaOk {
			return Agg{ex.zeroOf(mt.Elem()), c.False()}
		}
		return ex.zeroOf(mt.Elem())
	}
	panic(unsupported("lookup on " + x.X.Type().String()))
}

type rangeIter struct {
	m   *MapObj
	ent []mapEntry
	s   Str
	pos int64
	isS bool
}

func (ex *Exec) rangeInit(fr *Frame, x *ssa.Range) Value {
	switch xv := ex.get(fr, x.X).(type) {
	case *MapObj:
		it := &rangeIter{m: xv}
		if xv != nil {
			it.ent = append([]mapEntry(nil), xv.entries...)
		}
		return it
	case Str:
		return &rangeIter{s: xv, isS: true}
	}
	panic(unsupported("range over " + x.X.Type().String()))
}

func (ex *Exec) rangeNext(fr *Frame, x *ssa.Next) Value {
	c := ex.c
	it := ex.get(fr, x.Iter).(*rangeIter)
	if !x.IsString {
		tup := x.Type().(*types.Tuple)
		if int(it.pos) >= len(it.ent) {
			return Agg{c.False(), ex.zeroOf(tup.At(1).Type()), ex.zeroOf(tup.At(2).Type())}
		}
		e := it.ent[it.pos]
		it.pos++
		return Agg{c.True(), e.k, e.v}
	}
	// string iteration with UTF-8 decoding as the range statement does it (invalid encodings give U+FFFD, width 1)
	n := ex.concretize(it.s.len, 4096, "range over string")
	if uint64(it.pos) >= n {
		return Agg{c.False(), c.Const(64, 0), c.Const(32, 0)}
	}
	byteAt := func(k int64) *Term {
		return ex.load(ex.ptrAdd(it.s.p, it.pos+k), types.Typ[types.Uint8]).(*Term)
	}
	in := func(b *Term, lo, hi uint64) *Term {
		return c.And(c.Not(c.Cmp("bvult", b, c.Const(8, lo))), c.Not(c.Cmp("bvult", c.Const(8, hi), b)))
	}
	low := func(b *Term, mask uint64, shift uint64) *Term {
		return c.Bin("bvshl", c.ZExt(c.Bin("bvand", b, c.Const(8, mask)), 32), c.Const(32, shift))
	}
	i := it.pos
	b0 := byteAt(0)
	if ex.branch(c.Cmp("bvult", b0, c.Const(8, 0x80))) {
		it.pos++
		return Agg{c.True(), c.Const(64, uint64(i)), c.ZExt(b0, 32)}
	}
	avail := int64(n) - it.pos
	if avail >= 2 {
		b1 := byteAt(1)
		if ex.branch(c.And(in(b0, 0xc2, 0xdf), in(b1, 0x80, 0xbf))) {
			it.pos += 2
			return Agg{c.True(), c.Const(64, uint64(i)), c.Bin("bvor", low(b0, 0x1f, 6), low(b1, 0x3f, 0))}
		}
		if avail >= 3 {
			b2 := byteAt(2)
			lead3 := c.Or(c.And(c.Eq(b0, c.Const(8, 0xe0)), in(b1, 0xa0, 0xbf)),
				c.Or(c.And(c.Or(in(b0, 0xe1, 0xec), in(b0, 0xee, 0xef)), in(b1, 0x80, 0xbf)),
					c.And(c.Eq(b0, c.Const(8, 0xed)), in(b1, 0x80, 0x9f))))
			if ex.branch(c.And(lead3, in(b2, 0x80, 0xbf))) {
				it.pos += 3
				return Agg{c.True(), c.Const(64, uint64(i)), c.Bin("bvor", low(b0, 0x0f, 12), c.Bin("bvor", low(b1, 0x3f, 6), low(b2, 0x3f, 0)))}
			}
			if avail >= 4 {
				b3 := byteAt(3)
				lead4 := c.Or(c.And(c.Eq(b0, c.Const(8, 0xf0)), in(b1, 0x90, 0xbf)),
					c.Or(c.And(in(b0, 0xf1, 0xf3), in(b1, 0x80, 0xbf)),
						c.And(c.Eq(b0, c.Const(8, 0xf4)), in(b1, 0x80, 0x8f))))
				if ex.branch(c.And(lead4, c.And(in(b2, 0x80, 0xbf), in(b3, 0x80, 0xbf)))) {
					it.pos += 4
					return Agg{c.True(), c.Const(64, uint64(i)), c.Bin("bvor", low(b0, 0x07, 18), c.Bin("bvor", low(b1, 0x3f, 12), c.Bin("bvor", low(b2, 0x3f, 6), low(b3, 0x3f, 0))))}
				}
			}
		}
	}
	it.pos++
	return Agg{c.True(), c.Const(64, uint64(i)), c.Const(32, 0xfffd)}
}

// ---------- bodyless functions ----------

func (ex *Exec) intrinsic(fn *ssa.Function, args []Value) Value {
	c := ex.c
	u32 := types.Typ[types.Uint32]
	u64 := types.Typ[types.Uint64]
	name := fn.String()
	switch name {
	case "github.com/ProjectSerenity/firefly/kernel/sync.archAcquireSpinlock":
		p := args[0].(Ptr)
		ex.lockEvent("acquire", p)
		st := ex.load(p, u32).(*Term)
		if !ex.require(c.Eq(st, c.Const(32, 0))) {
			panic(pathAbort{kind: "monitor", msg: "Acquire on a lock that is already held: blocks forever (self-deadlock)"})
		}
		ex.store(p, u32, c.Const(32, 1))
		return nil
	case "sync/atomic.SwapUint32":
		ex.lockEvent("swap", args[0].(Ptr))
		old := ex.load(args[0].(Ptr), u32)
		ex.store(args[0].(Ptr), u32, args[1])
		return old
	case "sync/atomic.StoreUint32":
		ex.lockEvent("store", args[0].(Ptr))
		ex.store(args[0].(Ptr), u32, args[1])
		return nil
	case "sync/atomic.LoadUint32":
		return ex.load(args[0].(Ptr), u32)
	case "sync/atomic.AddUint32":
		n := c.Bin("bvadd", ex.load(args[0].(Ptr), u32).(*Term), args[1].(*Term))
		ex.store(args[0].(Ptr), u32, n)
		return n
	case "sync/atomic.CompareAndSwapUint32":
		old := ex.load(args[0].(Ptr), u32).(*Term)
		eq := c.Eq(old, args[1].(*Term))
		ex.store(args[0].(Ptr), u32, c.Ite(eq, args[2].(*Term), old))
		return eq
	case "sync/atomic.LoadUint64":
		return ex.load(args[0].(Ptr), u64)
	case "sync/atomic.StoreUint64":
		ex.store(args[0].(Ptr), u64, args[1])
		return nil
	case "sync/atomic.AddUint64":
		n := c.Bin("bvadd", ex.load(args[0].(Ptr), u64).(*Term), args[1].(*Term))
		ex.store(args[0].(Ptr), u64, n)
		return n
	case "internal/bytealg.IndexByteString":
		s := args[0].(Str)
		return ex.indexByte(s.p, s.len, args[1].(*Term))
	case "internal/bytealg.IndexByte":
		s := args[0].(Slice)
		return ex.indexByte(s.p, s.len, args[1].(*Term))
	case "internal/bytealg.CountString":
		s := args[0].(Str)
		return ex.countByte(s.p, s.len, args[1].(*Term))
	case "internal/bytealg.Count":
		s := args[0].(Slice)
		return ex.countByte(s.p, s.len, args[1].(*Term))
	}
	if strings.HasPrefix(name, "github.com/ProjectSerenity/firefly/kernel/cpu.") {
		panic(unsupported("hardware stub " + name + " called: the harness must override the seam that leads here"))
	}
	panic(unsupported("no model for bodyless function " + name))
}

func (ex *Exec) indexByte(p Ptr, ln *Term, b *Term) Value {
	c := ex.c
	n := ex.concretize(ln, 4096, "IndexByte length")
	r := c.Const(64, ^uint64(0))
	for i := int64(n) - 1; i >= 0; i-- {
		x := ex.load(ex.ptrAdd(p, i), types.Typ[types.Uint8]).(*Term)
		r = c.Ite(c.Eq(x, b), c.Const(64, uint64(i)), r)
	}
	return r
}

func (ex *Exec) countByte(p Ptr, ln *Term, b *Term) Value {
	c := ex.c
	n := ex.concretize(ln, 4096, "Count length")
	r := c.Const(64, 0)
	for i := int64(0); i < int64(n); i++ {
		x := ex.load(ex.ptrAdd(p, i), types.Typ[types.Uint8]).(*Term)
		r = c.Bin("bvadd", r, c.Ite(c.Eq(x, b), c.Const(64, 1), c.Const(64, 0)))
	}
	return r
}

// modelled intercepts functions that have bodies but are better replaced by a model.
func (ex *Exec) modelled(fn *ssa.Function, args []Value) (Value, bool) {
	if fn.Pkg == nil {
		return nil, false
	}
	switch fn.Pkg.Pkg.Path() {
	case "math/bits":
		c := ex.c
		switch fn.Name() {
		case "OnesCount64":
			x := args[0].(*Term)
			r := c.Const(64, 0)
			for i := 0; i < 64; i++ {
				r = c.Bin("bvadd", r, c.ZExt(c.Extract(x, i, i), 64))
			}
			return r, true
		case "TrailingZeros64", "LeadingZeros64", "Len64", "Len":
			x := args[0].(*Term)
			if x.W != 64 {
				return nil, false
			}
			switch fn.Name() {
			case "TrailingZeros64":
				r := c.Const(64, 64)
				for i := 63; i >= 0; i-- {
					r = c.Ite(c.Eq(c.Extract(x, i, i), c.Const(1, 1)), c.Const(64, uint64(i)), r)
				}
				return r, true
			case "Len64", "Len":
				r := c.Const(64, 0)
				for i := 0; i < 64; i++ {
					r = c.Ite(c.Eq(c.Extract(x, i, i), c.Const(1, 1)), c.Const(64, uint64(i+1)), r)
				}
				return r, true
			case "LeadingZeros64":
				r := c.Const(64, 64)
				for i := 0; i < 64; i++ {
					r = c.Ite(c.Eq(c.Extract(x, i, i), c.Const(1, 1)), c.Const(64, uint64(63-i)), r)
				}
				return r, true
			}
		}
	}
	return nil, false
}

// ---------- harness API ----------

func (ex *Exec) labelOf(v Value) string {
	s, ok := ex.concreteString(v.(Str))
	if !ok {
		panic(unsupported("non-constant label passed to zzverif"))
	}
	return s
}

func (ex *Exec) verifCall(fr *Frame, f *ssa.Function, cc *ssa.CallCommon, args []Value) Value {
	c := ex.c
	switch f.Name() {
	case "U8":
		return ex.fresh(ex.labelOf(args[0]), 8)
	case "U16":
		return ex.fresh(ex.labelOf(args[0]), 16)
	case "U32":
		return ex.fresh(ex.labelOf(args[0]), 32)
	case "U64", "Int", "Uintptr":
		return ex.fresh(ex.labelOf(args[0]), 64)
	case "Bool":
		v := ex.fresh(ex.labelOf(args[0]), 8)
		ex.assume(c.Cmp("bvule", v, c.Const(8, 1)))
		return c.Eq(v, c.Const(8, 1))
	case "Bytes":
		label := ex.labelOf(args[0])
		n := int64(args[1].(*Term).Val)
		o := ex.newObj(n, "bytes:"+label)
		for i := int64(0); i < n; i++ {
			o.cells[i] = cell{1, ex.fresh(label, 8), 0}
		}
		ln := c.Const(64, uint64(n))
		return Slice{Ptr{obj: o, off: c.Const(64, 0)}, ln, ln}
	case "Choice":
		n := args[1].(*Term)
		if !n.IsConst() {
			panic(unsupported("Choice with symbolic n"))
		}
		return c.Const(64, uint64(ex.choice(ex.labelOf(args[0]), int(n.Val))))
	case "Split":
		return c.Const(64, ex.concretize(args[1].(*Term), int(args[2].(*Term).Val), "Split "+ex.labelOf(args[0])))
	case "Concretize":
		// Concretize(label, x, n): fork over up to n feasible values of x (solver-guided); symbolic afterwards
		return ex.concretizeModel(args[1].(*Term), int(args[2].(*Term).Val))
	case "Assume":
		t := args[0].(*Term)
		ex.assume(t)
		return nil
	case "Assert":
		ex.check(args[0].(*Term), ex.labelOf(args[1]))
		return nil
	case "And":
		return c.And(args[0].(*Term), args[1].(*Term))
	case "Or":
		return c.Or(args[0].(*Term), args[1].(*Term))
	case "Not":
		return c.Not(args[0].(*Term))
	case "Implies":
		return c.Implies(args[0].(*Term), args[1].(*Term))
	case "IteU64", "IteU32", "IteU16", "IteU8", "IteInt", "IteBool":
		return c.Ite(args[0].(*Term), args[1].(*Term), args[2].(*Term))
	case "Reach":
		ex.res.Reach[ex.labelOf(args[0])]++
		return nil
	case "Known":
		ex.knownConds = append(ex.knownConds, knownCond{ex.labelOf(args[0]), args[1].(*Term)})
		return nil
	case "Observe":
		t := args[1].(*Term)
		if t.IsConst() {
			ex.observes = append(ex.observes, fmt.Sprintf("%s=%#x", ex.labelOf(args[0]), t.Val))
			if os.Getenv("VERIF_TRACE") != "" {
				fmt.Fprintf(os.Stderr, "observe %s=%#x\n", ex.labelOf(args[0]), t.Val)
			}
		} else {
			ex.observes = append(ex.observes, fmt.Sprintf("%s=<symbolic>", ex.labelOf(args[0])))
		}
		return nil
	case "Tier":
		if ex.cfg.Tier == "thorough" {
			return c.Const(64, 1)
		}
		return c.Const(64, 0)
	case "Param":
		if ex.cfg.Tier == "thorough" {
			return args[2]
		}
		return args[1]
	case "Symbolic":
		return c.True()
	case "Catch":
		return ex.catch(args[0].(Func))
	case "Region":
		label := ex.labelOf(args[0])
		base := args[1].(*Term)
		capa := args[2].(*Term)
		if !base.IsConst() || !capa.IsConst() {
			panic(unsupported("Region with symbolic base/capacity"))
		}
		sym := args[3].(*Term)
		if !sym.IsConst() {
			panic(unsupported("Region init must be constant"))
		}
		ex.nobj++
		o := &Obj{id: ex.nobj, size: int64(capa.Val), cells: map[int64]cell{}, name: label, base: base.Val, region: true}
		ex.objs = append(ex.objs, o) // keeps ids dense; objContaining finds it through ex.regions
		if sym.Val&1 != 0 {
			o.arr = "A!" + sanitize(label)
		}
		for _, r := range ex.regions {
			if base.Val < r.base+uint64(r.size) && r.base < base.Val+capa.Val {
				panic(unsupported("overlapping regions"))
			}
		}
		ex.regions = append(ex.regions, o)
		return Slice{Ptr{obj: o, off: c.Const(64, 0)}, capa, capa}
	case "Havoc":
		// Havoc(p, n, label): the n bytes at p get arbitrary content (an uninterpreted array), everything else in the object keeps its value
		p := args[0].(Ptr)
		n := args[1].(*Term)
		label := ex.labelOf(args[2])
		if p.obj == nil || !p.off.IsConst() || !n.IsConst() || p.obj.arr != "" || len(p.obj.log) != 0 {
			panic(unsupported("Havoc needs a concrete range in a plain object"))
		}
		o := p.obj
		o.touch(ex)
		lo, hi := int64(p.off.Val), int64(p.off.Val+n.Val)
		ex.checkAccess(o, p.off, int64(n.Val), true)
		for k := int64(0); k < o.size; k++ {
			if k >= lo && k < hi {
				continue
			}
			if _, _, ok := o.coveringCell(k); !ok {
				o.cells[k] = cell{1, c.Const(8, 0), 0}
			}
		}
		ex.clearRange(o, lo, hi-lo)
		o.arr = "A!" + sanitize(label)
		o.havocLabel = label
		ex.havocs = append(ex.havocs, o)
		return nil
	case "Limit":
		label := ex.labelOf(args[0])
		for _, o := range ex.regions {
			if o.name == label {
				o.touch(ex)
				o.limit = args[1].(*Term)
				return nil
			}
		}
		panic(unsupported("Limit on unknown region " + label))
	case "WatchLocked":
		p := args[0].(Ptr)
		n := args[1].(*Term)
		lk := args[2].(Ptr)
		if p.obj == nil || !p.off.IsConst() || !n.IsConst() {
			panic(unsupported("WatchLocked needs a concrete address range"))
		}
		if p.obj.watch == nil {
			p.obj.watch = &watch{lock: lk, tag: p.obj.name}
			ex.watched = append(ex.watched, p.obj)
		}
		p.obj.watch.ranges = append(p.obj.watch.ranges, [2]int64{int64(p.off.Val), int64(p.off.Val + n.Val)})
		ex.lockWatch = p.obj.watch
		return nil
	case "Unwatch":
		for _, o := range ex.watched {
			o.watch = nil
		}
		ex.watched = nil
		ex.lockWatch = nil
		return nil
	case "LockEvents":
		return c.Const(64, uint64(ex.lockEvents))
	case "InRegion":
		// InRegion(p unsafe.Pointer, n uintptr, label) bool: [p,p+n) lies inside the accessible part of region label
		p := args[0].(Ptr)
		n := args[1].(*Term)
		label := ex.labelOf(args[2])
		if p.obj == nil || p.obj.name != label {
			return c.False()
		}
		end := c.Bin("bvadd", p.off, n)
		return c.And(c.Cmp("bvule", p.off, end), c.Cmp("bvule", end, ex.limitOf(p.obj)))
	case "SameObject":
		a, b := args[0].(Ptr), args[1].(Ptr)
		return c.Bool(a.obj != nil && a.obj == b.obj)
	}
	panic(unsupported("zzverif." + f.Name()))
}

func (ex *Exec) catch(f Func) (res Value) {
	depth := ex.callDepth
	npanicking := len(ex.panicking)
	defer func() {
		r := recover()
		if r == nil {
			return
		}
		gp, ok := r.(*goPanic)
		if !ok {
			panic(r)
		}
		_ = gp
		ex.callDepth = depth
		ex.panicking = ex.panicking[:npanicking]
		res = ex.c.True()
	}()
	ex.call(f, nil)
	return ex.c.False()
}

// ---------- lock discipline monitor (C09) ----------

func (ex *Exec) lockEvent(kind string, p Ptr) {
	ex.lockEvents++
}

func (ex *Exec) checkWatch(o *Obj, off *Term, size int64) {
	if o.watch == nil {
		return
	}
	w := o.watch
	c := ex.c
	overlap := c.False()
	end := c.Bin("bvadd", off, c.Const(64, uint64(size)))
	for _, r := range w.ranges {
		overlap = c.Or(overlap, c.And(c.Cmp("bvult", off, c.Const(64, uint64(r[1]))), c.Cmp("bvult", c.Const(64, uint64(r[0])), end)))
	}
	if overlap.IsFalse() {
		return
	}
	saved := ex.lockWatch
	ex.lockWatch = nil
	defer func() { ex.lockWatch = saved }()
	st := ex.load(w.lock, types.Typ[types.Uint32]).(*Term)
	held := c.Eq(st, c.Const(32, 1))
	if !ex.branch(c.Or(c.Not(overlap), held)) {
		panic(pathAbort{kind: "monitor", msg: "shared allocator state (" + w.tag + ") accessed without holding the lock at " + ex.pos(ex.curPos)})
	}
}
