package gosym

import (
	"fmt"
	"go/constant"
	"go/token"
	"go/types"
	"os"
	"strings"

	"golang.org/x/tools/go/ssa"
)

type deferred struct {
	fn   Func
	args []Value
	// invoke-mode / builtin
	builtin *ssa.Builtin
}

type Frame struct {
	fn       *ssa.Function
	locals   map[ssa.Value]Value
	env      []Value
	defers   []deferred
	results  Value
	panicked *goPanic
}

func (ex *Exec) constString(s string) Str {
	o, ok := ex.strObjs[s]
	if !ok {
		id := len(ex.constObjs) + 1
		o = &Obj{id: id, size: int64(len(s)), cells: map[int64]cell{}, name: "const-string", base: 0xd000000000 + uint64(id)*objSpacing, persistent: true}
		for i := 0; i < len(s); i++ {
			o.cells[int64(i)] = cell{1, ex.c.Const(8, uint64(s[i])), 0}
		}
		ex.constObjs = append(ex.constObjs, o)
		ex.strObjs[s] = o
	}
	return Str{Ptr{obj: o, off: ex.c.Const(64, 0)}, ex.c.Const(64, uint64(len(s)))}
}

func (ex *Exec) constVal(c *ssa.Const) Value {
	t := c.Type()
	if c.Value == nil {
		return ex.zeroOf(t)
	}
	switch u := t.Underlying().(type) {
	case *types.Basic:
		switch {
		case u.Info()&types.IsBoolean != 0:
			return ex.c.Bool(constant.BoolVal(c.Value))
		case u.Info()&types.IsString != 0:
			return ex.constString(constant.StringVal(c.Value))
		case u.Kind() == types.UnsafePointer:
			// unsafe.Pointer(uintptr(k)) folded to a constant: nil for 0, otherwise a wild address
			v, _ := constant.Uint64Val(constant.ToInt(c.Value))
			if v == 0 {
				return ex.zeroOf(t)
			}
			return Ptr{off: ex.c.Const(64, v)}
		case u.Info()&types.IsInteger != 0:
			w := width(t)
			if u.Info()&types.IsUnsigned != 0 {
				return ex.c.Const(w, c.Uint64())
			}
			return ex.c.Const(w, uint64(c.Int64()))
		}
	}
	panic(unsupported("constant " + c.String()))
}

func (ex *Exec) get(fr *Frame, v ssa.Value) Value {
	switch x := v.(type) {
	case *ssa.Const:
		return ex.constVal(x)
	case *ssa.Global:
		return Ptr{obj: ex.globalObj(x), off: ex.c.Const(64, 0)}
	case *ssa.Function:
		return Func{fn: x}
	case *ssa.FreeVar:
		for i, fv := range fr.fn.FreeVars {
			if fv == x {
				return fr.env[i]
			}
		}
	case *ssa.Builtin:
		return x
	}
	if r, ok := fr.locals[v]; ok {
		return r
	}
	panic(fmt.Sprintf("gosym: no value for %s (%T) in %s", v.Name(), v, fr.fn))
}

func (ex *Exec) globalObj(g *ssa.Global) *Obj {
	if o, ok := ex.globObjs[g]; ok {
		return o
	}
	idx, ok := ex.globIndex[g]
	if !ok {
		panic(unsupported("unknown global " + g.String()))
	}
	et := g.Type().(*types.Pointer).Elem()
	sz := sizeof(et)
	if sz > objSpacing-4096 {
		panic(unsupported("huge global " + g.String()))
	}
	o := &Obj{id: idx + 1, size: sz, cells: map[int64]cell{}, name: g.String(), base: 0xa000000000 + uint64(idx+1)*objSpacing, persistent: !ex.inInit}
	ex.globObjs[g] = o
	if !ex.inInit {
		// created lazily on a path: its pristine (zero) state is what a reset restores
		o.dirty = true
		o.savedCells = map[int64]cell{}
		ex.dirtyObjs = append(ex.dirtyObjs, o)
		if g.Pkg != nil && !ex.initDone[g.Pkg] && !zeroInitOK(g) {
			panic(unsupported("global of a package whose initialiser was not run: " + g.String()))
		}
	}
	return o
}

func zeroInitOK(g *ssa.Global) bool {
	// init guards and globals of the packages we knowingly skip but whose zero value is their real initial value
	n := g.Name()
	return strings.HasPrefix(n, "init$")
}

func (ex *Exec) intBin(op token.Token, a, b *Term, xt types.Type) Value {
	c := ex.c
	if a.W == 0 {
		switch op {
		case token.EQL:
			return c.Eq(a, b)
		case token.NEQ:
			return c.Not(c.Eq(a, b))
		case token.AND, token.LAND:
			return c.And(a, b)
		case token.OR, token.LOR:
			return c.Or(a, b)
		case token.XOR:
			return c.Not(c.Eq(a, b))
		case token.AND_NOT:
			return c.And(a, c.Not(b))
		}
		panic(unsupported("bool binop " + op.String()))
	}
	uns := isUnsigned(xt)
	switch op {
	case token.ADD:
		return c.Bin("bvadd", a, b)
	case token.SUB:
		return c.Bin("bvsub", a, b)
	case token.MUL:
		return c.Bin("bvmul", a, b)
	case token.AND:
		return c.Bin("bvand", a, b)
	case token.OR:
		return c.Bin("bvor", a, b)
	case token.XOR:
		return c.Bin("bvxor", a, b)
	case token.AND_NOT:
		return c.Bin("bvand", a, c.BvNot(b))
	case token.QUO, token.REM:
		if !ex.require(c.Not(c.Eq(b, c.Const(b.W, 0)))) {
			panic(ex.runtimePanic("integer divide by zero"))
		}
		switch {
		case op == token.QUO && uns:
			return c.Bin("bvudiv", a, b)
		case op == token.QUO:
			return c.Bin("bvsdiv", a, b)
		case uns:
			return c.Bin("bvurem", a, b)
		default:
			return c.Bin("bvsrem", a, b)
		}
	case token.EQL:
		return c.Eq(a, b)
	case token.NEQ:
		return c.Not(c.Eq(a, b))
	case token.LSS:
		if uns {
			return c.Cmp("bvult", a, b)
		}
		return c.Cmp("bvslt", a, b)
	case token.LEQ:
		if uns {
			return c.Cmp("bvule", a, b)
		}
		return c.Cmp("bvsle", a, b)
	case token.GTR:
		if uns {
			return c.Cmp("bvult", b, a)
		}
		return c.Cmp("bvslt", b, a)
	case token.GEQ:
		if uns {
			return c.Cmp("bvule", b, a)
		}
		return c.Cmp("bvsle", b, a)
	}
	panic(unsupported("int binop " + op.String()))
}

func (ex *Exec) shift(op token.Token, a, b *Term, xt, yt types.Type) Value {
	c := ex.c
	if !isUnsigned(yt) {
		// negative shift count panics
		neg := c.Cmp("bvslt", b, c.Const(b.W, 0))
		if !ex.require(c.Not(neg)) {
			panic(ex.runtimePanic("negative shift amount"))
		}
	}
	// normalise count to a's width, saturating
	var cnt *Term
	switch {
	case b.W == a.W:
		cnt = b
	case b.W < a.W:
		cnt = c.ZExt(b, a.W)
	default:
		big := c.Not(c.Cmp("bvult", b, c.Const(b.W, uint64(a.W))))
		cnt = c.Ite(big, c.Const(a.W, uint64(a.W)), c.Trunc(b, a.W))
	}
	if op == token.SHL {
		return c.Bin("bvshl", a, cnt)
	}
	if isUnsigned(xt) {
		return c.Bin("bvlshr", a, cnt)
	}
	return c.Bin("bvashr", a, cnt)
}

func (ex *Exec) strEq(a, b Str) *Term {
	c := ex.c
	leq := c.Eq(a.len, b.len)
	if leq.IsFalse() {
		return leq
	}
	// need a concrete length on at least one side
	var n uint64
	switch {
	case a.len.IsConst():
		n = a.len.Val
	case b.len.IsConst():
		n = b.len.Val
	default:
		if a.p.obj == b.p.obj && a.p.off == b.p.off {
			return leq
		}
		n = ex.concretize(a.len, 64, "string comparison")
		leq = c.Eq(b.len, c.Const(64, n))
	}
	r := leq
	if r.IsFalse() || n == 0 {
		return r
	}
	if a.p.obj == b.p.obj && a.p.off == b.p.off {
		return r
	}
	// compare bytes without bounds faults on the possibly shorter side: guard by leq
	if !leq.IsTrue() {
		if !ex.branch(leq) {
			return c.False()
		}
		r = c.True()
	}
	for i := uint64(0); i < n; i++ {
		x := ex.load(ex.ptrAdd(a.p, int64(i)), types.Typ[types.Uint8]).(*Term)
		y := ex.load(ex.ptrAdd(b.p, int64(i)), types.Typ[types.Uint8]).(*Term)
		r = c.And(r, c.Eq(x, y))
		if r.IsFalse() {
			break
		}
	}
	return r
}

func (ex *Exec) ptrEq(a, b Ptr) *Term {
	c := ex.c
	if a.obj != nil && b.obj != nil {
		if a.obj != b.obj {
			return c.False()
		}
		return c.Eq(a.off, b.off)
	}
	return c.Eq(ex.ptrToAddr(a), ex.ptrToAddr(b))
}

func (ex *Exec) valueEq(x, y Value, t types.Type) *Term {
	c := ex.c
	switch a := x.(type) {
	case *Term:
		return c.Eq(a, y.(*Term))
	case Ptr:
		return ex.ptrEq(a, y.(Ptr))
	case Str:
		return ex.strEq(a, y.(Str))
	case Func:
		b := y.(Func)
		if a.fn == nil || b.fn == nil {
			return c.Bool(a.fn == nil && b.fn == nil)
		}
		panic(unsupported("comparison of two non-nil funcs"))
	case *MapObj:
		b := y.(*MapObj)
		return c.Bool(a == b)
	case Slice:
		b := y.(Slice)
		// only slice == nil is legal Go
		if b.p.isNilConst() && b.len.IsConst() {
			return ex.ptrEq(a.p, ex.nilPtr())
		}
		if a.p.isNilConst() && a.len.IsConst() {
			return ex.ptrEq(b.p, ex.nilPtr())
		}
	case Iface:
		b := y.(Iface)
		if a.typ == nil || b.typ == nil {
			return c.Bool(a.typ == nil && b.typ == nil)
		}
		if !types.Identical(a.typ, b.typ) {
			return c.False()
		}
		return ex.valueEq(a.v, b.v, a.typ)
	case Agg:
		b := y.(Agg)
		r := c.True()
		for i := range a {
			var et types.Type
			switch u := t.Underlying().(type) {
			case *types.Struct:
				et = u.Field(i).Type()
			case *types.Array:
				et = u.Elem()
			}
			r = c.And(r, ex.valueEq(a[i], b[i], et))
		}
		return r
	}
	panic(unsupported(fmt.Sprintf("equality on %T", x)))
}

func (ex *Exec) binop(x *ssa.BinOp, a, b Value) Value {
	switch x.Op {
	case token.SHL, token.SHR:
		return ex.shift(x.Op, a.(*Term), b.(*Term), x.X.Type(), x.Y.Type())
	}
	switch av := a.(type) {
	case *Term:
		return ex.intBin(x.Op, av, b.(*Term), x.X.Type())
	case Str:
		bv := b.(Str)
		switch x.Op {
		case token.EQL:
			return ex.strEq(av, bv)
		case token.NEQ:
			return ex.c.Not(ex.strEq(av, bv))
		case token.ADD:
			return ex.strConcat(av, bv)
		case token.LSS, token.LEQ, token.GTR, token.GEQ:
			return ex.strCompare(x.Op, av, bv)
		}
	default:
		switch x.Op {
		case token.EQL:
			return ex.valueEq(a, b, x.X.Type())
		case token.NEQ:
			return ex.c.Not(ex.valueEq(a, b, x.X.Type()))
		}
	}
	panic(unsupported(fmt.Sprintf("binop %s on %T", x.Op, a)))
}

func (ex *Exec) strCompare(op token.Token, a, b Str) Value {
	n := ex.concretize(a.len, 64, "string compare")
	m := ex.concretize(b.len, 64, "string compare")
	c := ex.c
	// lexicographic: build lt / eq
	lt, eq := c.False(), c.True()
	k := n
	if m < k {
		k = m
	}
	for i := uint64(0); i < k; i++ {
		x := ex.load(ex.ptrAdd(a.p, int64(i)), types.Typ[types.Uint8]).(*Term)
		y := ex.load(ex.ptrAdd(b.p, int64(i)), types.Typ[types.Uint8]).(*Term)
		lt = c.Or(lt, c.And(eq, c.Cmp("bvult", x, y)))
		eq = c.And(eq, c.Eq(x, y))
	}
	if n < m {
		lt = c.Or(lt, eq)
		eq = c.False()
	} else if n > m {
		eq = c.False()
	}
	switch op {
	case token.LSS:
		return lt
	case token.LEQ:
		return c.Or(lt, eq)
	case token.GTR:
		return c.Not(c.Or(lt, eq))
	default:
		return c.Not(lt)
	}
}

func (ex *Exec) strConcat(a, b Str) Value {
	n := ex.concretize(a.len, 256, "string concat")
	m := ex.concretize(b.len, 256, "string concat")
	o := ex.newObj(int64(n+m), "strconcat")
	for i := uint64(0); i < n; i++ {
		o.cells[int64(i)] = cell{1, ex.load(ex.ptrAdd(a.p, int64(i)), types.Typ[types.Uint8]), 0}
	}
	for i := uint64(0); i < m; i++ {
		o.cells[int64(n+i)] = cell{1, ex.load(ex.ptrAdd(b.p, int64(i)), types.Typ[types.Uint8]), 0}
	}
	return Str{Ptr{obj: o, off: ex.c.Const(64, 0)}, ex.c.Const(64, n+m)}
}

func (ex *Exec) convert(v Value, from, to types.Type) Value {
	c := ex.c
	switch x := v.(type) {
	case Str:
		if ts, ok := to.Underlying().(*types.Slice); ok {
			if b, ok := ts.Elem().Underlying().(*types.Basic); ok && b.Kind() == types.Uint8 {
				n := ex.concretize(x.len, 256, "[]byte(string)")
				o := ex.newObj(int64(n), "bytes-of-string")
				for i := uint64(0); i < n; i++ {
					o.cells[int64(i)] = cell{1, ex.load(ex.ptrAdd(x.p, int64(i)), types.Typ[types.Uint8]), 0}
				}
				ln := c.Const(64, n)
				return Slice{Ptr{obj: o, off: c.Const(64, 0)}, ln, ln}
			}
		}
		if isString(to) {
			return x
		}
	case Slice:
		if isString(to) {
			n := ex.concretize(x.len, 256, "string([]byte)")
			o := ex.newObj(int64(n), "string-of-bytes")
			for i := uint64(0); i < n; i++ {
				o.cells[int64(i)] = cell{1, ex.load(ex.ptrAdd(x.p, int64(i)), types.Typ[types.Uint8]), 0}
			}
			return Str{Ptr{obj: o, off: c.Const(64, 0)}, c.Const(64, n)}
		}
		if _, ok := to.Underlying().(*types.Slice); ok {
			return x
		}
	case *Term:
		if tb, ok := to.Underlying().(*types.Basic); ok {
			if tb.Kind() == types.UnsafePointer {
				return ex.addrToPtr(x)
			}
			if tb.Info()&types.IsString != 0 {
				// string(rune/byte)
				if x.IsConst() && x.Val < 0x80 {
					return ex.constString(string(rune(x.Val)))
				}
				// ASCII only
				if !ex.require(c.Cmp("bvult", x, c.Const(x.W, 0x80))) {
					panic(unsupported("string(rune) for non-ASCII rune"))
				}
				o := ex.newObj(1, "string-of-rune")
				o.cells[0] = cell{1, c.Trunc(x, 8), 0}
				return Str{Ptr{obj: o, off: c.Const(64, 0)}, c.Const(64, 1)}
			}
			if tb.Info()&types.IsInteger != 0 {
				tw := width(to)
				if tw == x.W {
					return x
				}
				if tw < x.W {
					return c.Trunc(x, tw)
				}
				if isUnsigned(from) {
					return c.ZExt(x, tw)
				}
				return c.SExt(x, tw)
			}
		}
		if _, ok := to.Underlying().(*types.Pointer); ok {
			return ex.addrToPtr(x)
		}
	case Ptr:
		if tb, ok := to.Underlying().(*types.Basic); ok && tb.Kind() == types.Uintptr {
			return ex.ptrToAddr(x)
		}
		return x
	case Func, Agg, Iface, *MapObj:
		return v
	}
	panic(unsupported(fmt.Sprintf("convert %T %s -> %s", v, from, to)))
}

// ---------- calls ----------

func (ex *Exec) call(f Func, args []Value) Value {
	fn := f.fn
	if fn == nil {
		panic(ex.runtimePanic("invalid memory address or nil pointer dereference (nil func call)"))
	}
	if ov, ok := ex.overrides[fn]; ok {
		fn = ov
		f = Func{fn: ov}
	}
	if fn.Blocks == nil {
		ex.res.Intrinsics[fn.String()] = true
		return ex.intrinsic(fn, args)
	}
	if r, ok := ex.modelled(fn, args); ok {
		ex.res.Intrinsics[fn.String()] = true
		return r
	}
	ex.res.Funcs[fn.String()] = true
	ex.callDepth++
	if ex.callDepth > ex.cfg.DepthBudget {
		panic(pathAbort{kind: "budget", msg: fmt.Sprintf("call depth %d exceeded in %s", ex.cfg.DepthBudget, fn)})
	}
	defer func() { ex.callDepth-- }()
	fr := &Frame{fn: fn, locals: make(map[ssa.Value]Value, 16), env: f.env}
	for i, p := range fn.Params {
		fr.locals[p] = args[i]
	}
	if fn.Recover == nil && !hasDefer(fn) {
		return ex.runBlocks(fr, fn.Blocks[0])
	}
	return ex.runWithDefers(fr)
}

func hasDefer(fn *ssa.Function) bool {
	for _, b := range fn.Blocks {
		for _, in := range b.Instrs {
			if _, ok := in.(*ssa.Defer); ok {
				return true
			}
		}
	}
	return false
}

func (ex *Exec) runWithDefers(fr *Frame) (ret Value) {
	defer func() {
		r := recover()
		if r == nil {
			return
		}
		gp, ok := r.(*goPanic)
		if !ok {
			panic(r)
		}
		// run deferred calls while panicking
		fr.panicked = gp
		ex.panicking = append(ex.panicking, gp)
		ex.runDefers(fr)
		ex.panicking = ex.panicking[:len(ex.panicking)-1]
		if !gp.recovered {
			panic(gp)
		}
		// recovered: resume at the Recover block, or return zero results
		if fr.fn.Recover != nil {
			ret = ex.runBlocks(fr, fr.fn.Recover)
			return
		}
		ret = ex.zeroResults(fr.fn)
	}()
	return ex.runBlocks(fr, fr.fn.Blocks[0])
}

func (ex *Exec) zeroResults(fn *ssa.Function) Value {
	res := fn.Signature.Results()
	switch res.Len() {
	case 0:
		return nil
	case 1:
		return ex.zeroOf(res.At(0).Type())
	}
	return ex.zeroOf(res)
}

func (ex *Exec) runDefers(fr *Frame) {
	for len(fr.defers) > 0 {
		d := fr.defers[len(fr.defers)-1]
		fr.defers = fr.defers[:len(fr.defers)-1]
		if d.builtin != nil {
			ex.builtin(fr, d.builtin, d.args, nil)
			continue
		}
		ex.call(d.fn, d.args)
	}
}

type mergeInfo struct {
	armT, armF *ssa.BasicBlock
	pt, pf     *ssa.BasicBlock
	join       *ssa.BasicBlock
}

func simpleArm(b *ssa.BasicBlock) bool {
	if len(b.Preds) != 1 || len(b.Succs) != 1 {
		return false
	}
	for _, in := range b.Instrs {
		switch x := in.(type) {
		case *ssa.Store, *ssa.UnOp, *ssa.Convert, *ssa.ChangeType, *ssa.FieldAddr, *ssa.IndexAddr, *ssa.Jump,
			*ssa.Extract, *ssa.Field, *ssa.DebugRef, *ssa.Index, *ssa.Slice:
		case *ssa.BinOp:
			if x.Op == token.QUO || x.Op == token.REM {
				return false
			}
		default:
			return false
		}
	}
	return true
}

func mergeable(b *ssa.BasicBlock) *mergeInfo {
	s0, s1 := b.Succs[0], b.Succs[1]
	switch {
	case simpleArm(s0) && simpleArm(s1) && s0.Succs[0] == s1.Succs[0] && s0 != s1:
		return &mergeInfo{armT: s0, armF: s1, pt: s0, pf: s1, join: s0.Succs[0]}
	case simpleArm(s0) && s0.Succs[0] == s1:
		return &mergeInfo{armT: s0, pt: s0, pf: b, join: s1}
	case simpleArm(s1) && s1.Succs[0] == s0:
		return &mergeInfo{armF: s1, pt: b, pf: s1, join: s0}
	}
	return nil
}

// tryMerge executes both arms of a diamond under guards; returns the phi values at the join.
func (ex *Exec) tryMerge(fr *Frame, b *ssa.BasicBlock, cond *Term, mi *mergeInfo) (phis []Value, ok bool) {
	ex.spec = &specState{saved: map[*Obj]objSnap{}}
	nobjs, nobj := len(ex.objs), ex.nobj
	instrs := ex.instrs
	defer func() {
		spec := ex.spec
		ex.spec = nil
		ex.guard = nil
		if r := recover(); r != nil {
			if _, isMF := r.(mergeFail); !isMF {
				if _, isUns := r.(unsupportedErr); !isUns {
					if _, isGP := r.(*goPanic); !isGP {
						panic(r)
					}
				}
			}
			if traceOn {
				fmt.Fprintf(os.Stderr, "[trace] merge failed at %s: %v\n", ex.pos(ex.curPos), r)
			}
			// roll back
			for o, s := range spec.saved {
				o.cells, o.log, o.limit = s.cells, s.log, s.limit
				o.keysValid = false
			}
			ex.objs = ex.objs[:nobjs]
			ex.nobj = nobj
			ex.instrs = instrs
			phis, ok = nil, false
		}
	}()
	for _, arm := range []struct {
		blk *ssa.BasicBlock
		g   *Term
	}{{mi.armT, cond}, {mi.armF, ex.c.Not(cond)}} {
		if arm.blk == nil {
			continue
		}
		ex.guard = arm.g
		for _, in := range arm.blk.Instrs {
			if _, isJump := in.(*ssa.Jump); isJump {
				continue
			}
			ex.instrs++
			ex.step(fr, in)
		}
		ex.guard = nil
	}
	for _, in := range mi.join.Instrs {
		phi, isPhi := in.(*ssa.Phi)
		if !isPhi {
			break
		}
		var vt, vf Value
		for i, p := range mi.join.Preds {
			if p == mi.pt {
				vt = ex.get(fr, phi.Edges[i])
			}
			if p == mi.pf {
				vf = ex.get(fr, phi.Edges[i])
			}
		}
		m, good := ex.mergeValue(cond, vt, vf)
		if !good {
			panic(mergeFail{"phi"})
		}
		phis = append(phis, m)
	}
	ex.res.Merged++
	return phis, true
}

func (ex *Exec) runBlocks(fr *Frame, start *ssa.BasicBlock) Value {
	var prev *ssa.BasicBlock
	b := start
	var mergedPhis []Value
	for {
		// phis (parallel assignment)
		nphi := 0
		if mergedPhis != nil {
			for _, in := range b.Instrs {
				if _, ok := in.(*ssa.Phi); !ok {
					break
				}
				nphi++
			}
			for i := 0; i < nphi; i++ {
				fr.locals[b.Instrs[i].(*ssa.Phi)] = mergedPhis[i]
			}
			mergedPhis = nil
		} else {
			var vals []Value
			for _, in := range b.Instrs {
				phi, ok := in.(*ssa.Phi)
				if !ok {
					break
				}
				nphi++
				found := false
				for i, p := range b.Preds {
					if p == prev {
						vals = append(vals, ex.get(fr, phi.Edges[i]))
						found = true
						break
					}
				}
				if !found {
					panic("gosym: phi without matching predecessor in " + fr.fn.String())
				}
			}
			for i := 0; i < nphi; i++ {
				fr.locals[b.Instrs[i].(*ssa.Phi)] = vals[i]
			}
		}
		var next *ssa.BasicBlock
		for _, in := range b.Instrs[nphi:] {
			ex.instrs++
			if p := in.Pos(); p.IsValid() {
				ex.curPos = p
			}
			if ex.instrs > ex.cfg.InstrBudget {
				panic(pathAbort{kind: "budget", msg: fmt.Sprintf("instruction budget %d exceeded", ex.cfg.InstrBudget)})
			}
			switch x := in.(type) {
			case *ssa.If:
				cond := ex.get(fr, x.Cond).(*Term)
				if v, ok := ex.knownFact(cond); ok && ex.guard == nil {
					cond = ex.c.Bool(v)
				}
				if !cond.IsConst() && !ex.cfg.NoMerge && ex.guard == nil {
					if mi := mergeable(b); mi != nil {
						// merge only when both sides are feasible; an implied condition is simply followed
						ft, ff := ex.probe(cond)
						if ft != ff {
							cond = ex.c.Bool(ft)
						} else if !ft {
							panic(pathAbort{kind: "infeasible"})
						} else if phis, ok := ex.tryMerge(fr, b, cond, mi); ok {
							mergedPhis = phis
							if mergedPhis == nil {
								mergedPhis = []Value{}
							}
							next = mi.join
							break
						}
					}
				}
				if ex.branch(cond) {
					next = b.Succs[0]
				} else {
					next = b.Succs[1]
				}
			case *ssa.Jump:
				next = b.Succs[0]
			case *ssa.Return:
				var rv Value
				switch len(x.Results) {
				case 0:
				case 1:
					rv = ex.get(fr, x.Results[0])
				default:
					a := make(Agg, len(x.Results))
					for i, r := range x.Results {
						a[i] = ex.get(fr, r)
					}
					rv = a
				}
				return rv
			case *ssa.Panic:
				v := ex.get(fr, x.X).(Iface)
				panic(&goPanic{val: v, msg: ex.panicMsg(v), site: ex.pos(x.Pos())})
			case *ssa.RunDefers:
				ex.runDefers(fr)
			case *ssa.Defer:
				ex.pushDefer(fr, x)
			case *ssa.Go:
				panic(unsupported("go statement"))
			default:
				ex.step(fr, in)
			}
		}
		if next == nil {
			panic("gosym: block without terminator in " + fr.fn.String())
		}
		prev, b = b, next
		if mergedPhis != nil {
			// prev is irrelevant for merged joins
		}
	}
}

func (ex *Exec) pos(p token.Pos) string {
	if !p.IsValid() {
		return "?"
	}
	ps := ex.prog.Fset.Position(p)
	return fmt.Sprintf("%s:%d", shortPath(ps.Filename), ps.Line)
}

func shortPath(p string) string {
	if i := strings.Index(p, "/kernel/"); i >= 0 {
		return p[i+1:]
	}
	return p
}

func (ex *Exec) panicMsg(v Iface) (msg string) {
	if v.typ == nil {
		return "panic(nil)"
	}
	msg = "panic(" + v.typ.String() + ")"
	defer func() {
		if r := recover(); r != nil {
			if _, ok := r.(pathAbort); ok {
				panic(r)
			}
		}
	}()
	switch x := v.v.(type) {
	case Str:
		if s, ok := ex.concreteString(x); ok {
			return s
		}
	case Ptr:
		// *kernel.Error and friends: use the Message field
		pt, ok := v.typ.Underlying().(*types.Pointer)
		if !ok || x.obj == nil || !x.off.IsConst() {
			return msg
		}
		st, ok := pt.Elem().Underlying().(*types.Struct)
		if !ok {
			return msg
		}
		offs := structOffsets(st)
		for i := 0; i < st.NumFields(); i++ {
			if st.Field(i).Name() == "Message" && isString(st.Field(i).Type()) {
				s := ex.loadType(st.Field(i).Type(), func(lo, ls int64, lt types.Type) Value { return ex.loadLeafAt(x.obj, lo, ls, lt) }, int64(x.off.Val)+offs[i]).(Str)
				if cs, ok := ex.concreteString(s); ok {
					return msg + ": " + cs
				}
			}
		}
	}
	return msg
}

func (ex *Exec) concreteString(s Str) (string, bool) {
	if !s.len.IsConst() || s.p.obj == nil || !s.p.off.IsConst() {
		return "", false
	}
	var sb strings.Builder
	for i := uint64(0); i < s.len.Val; i++ {
		b := ex.byteAt(s.p.obj, int64(s.p.off.Val+i))
		if !b.IsConst() {
			return "", false
		}
		sb.WriteByte(byte(b.Val))
	}
	return sb.String(), true
}

func (ex *Exec) pushDefer(fr *Frame, x *ssa.Defer) {
	c := x.Common()
	var args []Value
	for _, a := range c.Args {
		args = append(args, ex.get(fr, a))
	}
	if c.IsInvoke() {
		recv := ex.get(fr, c.Value).(Iface)
		m := ex.lookupMethod(recv, c.Method)
		fr.defers = append(fr.defers, deferred{fn: Func{fn: m}, args: append([]Value{recv.v}, args...)})
		return
	}
	switch f := c.Value.(type) {
	case *ssa.Builtin:
		fr.defers = append(fr.defers, deferred{builtin: f, args: args})
	default:
		fr.defers = append(fr.defers, deferred{fn: ex.get(fr, c.Value).(Func), args: args})
		_ = f
	}
}

func (ex *Exec) lookupMethod(recv Iface, meth *types.Func) *ssa.Function {
	if recv.typ == nil {
		panic(ex.runtimePanic("invalid memory address or nil pointer dereference (nil interface method call)"))
	}
	m := ex.prog.LookupMethod(recv.typ, meth.Pkg(), meth.Name())
	if m == nil {
		panic(unsupported("no method " + meth.Name() + " on " + recv.typ.String()))
	}
	return m
}

func (ex *Exec) doCall(fr *Frame, c *ssa.CallCommon, instr ssa.Instruction) Value {
	args := make([]Value, len(c.Args))
	for i, a := range c.Args {
		args[i] = ex.get(fr, a)
	}
	if c.IsInvoke() {
		recv := ex.get(fr, c.Value).(Iface)
		m := ex.lookupMethod(recv, c.Method)
		return ex.call(Func{fn: m}, append([]Value{recv.v}, args...))
	}
	switch f := c.Value.(type) {
	case *ssa.Builtin:
		return ex.builtin(fr, f, args, c)
	case *ssa.Function:
		if f.Name() == "init" && f.Pkg != nil && f.Signature.Recv() == nil && fr.fn.Name() == "init" && fr.fn.Pkg != f.Pkg {
			if !ex.allowInit(f.Pkg) {
				return nil
			}
			if ex.initDone[f.Pkg] {
				return nil
			}
			ex.initDone[f.Pkg] = true
			if !strings.HasPrefix(f.Pkg.Pkg.Path(), "github.com/ProjectSerenity/firefly/") {
				// a standard-library initialiser the executor cannot run leaves that package marked uninitialised
				func() {
					defer func() {
						if r := recover(); r != nil {
							if _, ok := r.(unsupportedErr); !ok {
								panic(r)
							}
							ex.initDone[f.Pkg] = false
							for g := range ex.globObjs {
								if g.Pkg == f.Pkg {
									delete(ex.globObjs, g)
								}
							}
						}
					}()
					ex.call(Func{fn: f}, args)
				}()
				return nil
			}
		}
		if f.Pkg != nil && f.Pkg.Pkg.Name() == "zzverif" && f.Blocks == nil {
			return ex.verifCall(fr, f, c, args)
		}
		return ex.call(Func{fn: f}, args)
	default:
		return ex.call(ex.get(fr, c.Value).(Func), args)
	}
}

var stdInitAllow = map[string]bool{
	"strings": true, "bytes": true, "io": true, "sort": true, "errors": true, "unicode/utf8": true,
	"image/color": true, "math/bits": true, "math": false, "unsafe": true, "internal/bytealg": true,
	"internal/cpu": false, "sync/atomic": true, "internal/itoa": true, "strconv": false, "slices": true, "cmp": true,
	"internal/stringslite": true, "iter": true, "unicode": false,
}

func (ex *Exec) allowInit(p *ssa.Package) bool {
	path := p.Pkg.Path()
	if strings.HasPrefix(path, "github.com/ProjectSerenity/firefly/") {
		return true
	}
	return stdInitAllow[path]
}

// step executes one non-control instruction.
func (ex *Exec) step(fr *Frame, in ssa.Instruction) {
	c := ex.c
	switch x := in.(type) {
	case *ssa.Alloc:
		if ex.guard != nil {
			panic(mergeFail{"alloc"})
		}
		et := x.Type().(*types.Pointer).Elem()
		name := x.Comment
		if name == "" {
			name = "alloc"
		}
		fr.locals[x] = Ptr{obj: ex.newObj(sizeof(et), name+"@"+fr.fn.Name()), off: c.Const(64, 0)}
	case *ssa.BinOp:
		fr.locals[x] = ex.binop(x, ex.get(fr, x.X), ex.get(fr, x.Y))
	case *ssa.UnOp:
		v := ex.get(fr, x.X)
		switch x.Op {
		case token.MUL:
			fr.locals[x] = ex.load(v.(Ptr), x.Type())
		case token.NOT:
			fr.locals[x] = c.Not(v.(*Term))
		case token.SUB:
			fr.locals[x] = c.BvNeg(v.(*Term))
		case token.XOR:
			fr.locals[x] = c.BvNot(v.(*Term))
		default:
			panic(unsupported("unop " + x.Op.String()))
		}
	case *ssa.Store:
		ex.store(ex.get(fr, x.Addr).(Ptr), x.Val.Type(), ex.get(fr, x.Val))
	case *ssa.FieldAddr:
		p := ex.get(fr, x.X).(Ptr)
		if p.obj == nil {
			ex.derefCheck(p)
		}
		st := x.X.Type().Underlying().(*types.Pointer).Elem().Underlying().(*types.Struct)
		fr.locals[x] = ex.ptrAdd(p, structOffsets(st)[x.Field])
	case *ssa.Field:
		fr.locals[x] = ex.get(fr, x.X).(Agg)[x.Field]
	case *ssa.IndexAddr:
		fr.locals[x] = ex.indexAddr(fr, x)
	case *ssa.Index:
		fr.locals[x] = ex.index(fr, x)
	case *ssa.Convert:
		fr.locals[x] = ex.convert(ex.get(fr, x.X), x.X.Type(), x.Type())
	case *ssa.ChangeType:
		fr.locals[x] = ex.get(fr, x.X)
	case *ssa.MakeSlice:
		if ex.guard != nil {
			panic(mergeFail{"makeslice"})
		}
		n := ex.toInt64(ex.get(fr, x.Len).(*Term), x.Len.Type())
		cp := ex.toInt64(ex.get(fr, x.Cap).(*Term), x.Cap.Type())
		nn := ex.concretize(n, 1<<17, "make([]T, n)")
		cc := ex.concretize(cp, 1<<17, "make([]T, n, cap)")
		et := x.Type().Underlying().(*types.Slice).Elem()
		o := ex.newObj(int64(cc)*sizeof(et), "makeslice@"+fr.fn.Name())
		fr.locals[x] = Slice{Ptr{obj: o, off: c.Const(64, 0)}, c.Const(64, nn), c.Const(64, cc)}
	case *ssa.Slice:
		fr.locals[x] = ex.sliceOp(fr, x)
	case *ssa.MakeClosure:
		var env []Value
		for _, b := range x.Bindings {
			env = append(env, ex.get(fr, b))
		}
		fr.locals[x] = Func{fn: x.Fn.(*ssa.Function), env: env}
	case *ssa.Extract:
		fr.locals[x] = ex.get(fr, x.Tuple).(Agg)[x.Index]
	case *ssa.Call:
		if ex.guard != nil {
			panic(mergeFail{"call"})
		}
		fr.locals[x] = ex.doCall(fr, x.Common(), x)
	case *ssa.DebugRef:
	case *ssa.MakeInterface:
		v := ex.get(fr, x.X)
		// runtime.convTslice / convTstring box a value whose data pointer is nil as the zero value,
		// whatever its length field says (the AML parser builds such slice headers by hand)
		if sl, ok := v.(Slice); ok && sl.p.obj == nil && sl.p.off != nil && sl.p.off.IsConst() && sl.p.off.Val == 0 {
			v = ex.zeroOf(x.X.Type())
		}
		fr.locals[x] = Iface{x.X.Type(), v}
	case *ssa.ChangeInterface:
		fr.locals[x] = ex.get(fr, x.X)
	case *ssa.TypeAssert:
		fr.locals[x] = ex.typeAssert(x, ex.get(fr, x.X).(Iface))
	case *ssa.MakeMap:
		mt := x.Type().Underlying().(*types.Map)
		m := &MapObj{id: len(ex.maps), keyT: mt.Key(), valT: mt.Elem()}
		ex.maps = append(ex.maps, m)
		fr.locals[x] = m
	case *ssa.MapUpdate:
		ex.mapUpdate(ex.get(fr, x.Map).(*MapObj), ex.get(fr, x.Key), ex.get(fr, x.Value))
	case *ssa.Lookup:
		fr.locals[x] = ex.lookup(fr, x)
	case *ssa.Range:
		fr.locals[x] = ex.rangeInit(fr, x)
	case *ssa.Next:
		fr.locals[x] = ex.rangeNext(fr, x)
	case *ssa.SliceToArrayPointer:
		s := ex.get(fr, x.X).(Slice)
		at := x.Type().Underlying().(*types.Pointer).Elem().Underlying().(*types.Array)
		if !ex.require(c.Cmp("bvule", c.Const(64, uint64(at.Len())), s.len)) {
			panic(ex.runtimePanic("cannot convert slice to array pointer: length too short"))
		}
		fr.locals[x] = s.p
	default:
		panic(unsupported(fmt.Sprintf("instruction %T in %s", in, fr.fn)))
	}
}

// toInt64 extends an integer value to 64 bits according to its type.
func (ex *Exec) toInt64(t *Term, typ types.Type) *Term {
	if t.W == 64 {
		return t
	}
	if isUnsigned(typ) {
		return ex.c.ZExt(t, 64)
	}
	return ex.c.SExt(t, 64)
}

func (ex *Exec) indexBase(fr *Frame, xv ssa.Value) (base Ptr, ln *Term, et types.Type) {
	switch xt := xv.Type().Underlying().(type) {
	case *types.Slice:
		s := ex.get(fr, xv).(Slice)
		return s.p, s.len, xt.Elem()
	case *types.Pointer:
		at := xt.Elem().Underlying().(*types.Array)
		p := ex.get(fr, xv).(Ptr)
		if p.obj == nil {
			ex.derefCheck(p)
		}
		return p, ex.c.Const(64, uint64(at.Len())), at.Elem()
	}
	panic(unsupported("index base " + xv.Type().String()))
}

func (ex *Exec) indexAddr(fr *Frame, x *ssa.IndexAddr) Value {
	c := ex.c
	base, ln, et := ex.indexBase(fr, x.X)
	idx := ex.toInt64(ex.get(fr, x.Index).(*Term), x.Index.Type())
	if !ex.require(c.Cmp("bvult", idx, ln)) {
		panic(ex.runtimePanicAt("index out of range", x.Pos()))
	}
	return ex.elemPtr(base, idx, ln, sizeof(et))
}

func (ex *Exec) runtimePanicAt(msg string, p token.Pos) *goPanic {
	gp := ex.runtimePanic(msg)
	gp.site = ex.pos(p)
	gp.msg += " at " + gp.site
	return gp
}

// elemPtr computes &base[idx] for an in-bounds idx.
func (ex *Exec) elemPtr(base Ptr, idx, ln *Term, es int64) Ptr {
	c := ex.c
	if idx.IsConst() {
		return ex.ptrAdd(base, int64(idx.Val)*es)
	}
	off := c.Bin("bvadd", base.off, c.Bin("bvmul", idx, c.Const(64, uint64(es))))
	if base.obj == nil {
		return Ptr{off: off}
	}
	// symbolic index: use dims when the base offset is concrete (or already dimensional) and the object holds non-scalar data
	if (base.off.IsConst() || base.dims != nil) && !base.obj.region && base.obj.arr == "" {
		cb := base.cbase
		if base.dims == nil {
			cb = int64(base.off.Val)
		}
		cnt := (base.obj.size - cb) / es
		if ln.IsConst() && int64(ln.Val) < cnt {
			cnt = int64(ln.Val)
		}
		if um := ex.c.UMax(idx); um < uint64(cnt) {
			cnt = int64(um) + 1
		}
		if cnt <= 0 {
			cnt = 1
		}
		nd := append(append([]dim(nil), base.dims...), dim{stride: es, count: cnt, idx: idx})
		// idx < len is on the path; when len is concrete and the len elements fit in the object the element is in bounds
		safe := ln.IsConst() && int64(ln.Val) <= (base.obj.size-cb)/es && (base.dims == nil || base.safe)
		return Ptr{obj: base.obj, off: off, cbase: cb, dims: nd, safe: safe}
	}
	return Ptr{obj: base.obj, off: off}
}

func (ex *Exec) index(fr *Frame, x *ssa.Index) Value {
	c := ex.c
	idx := ex.toInt64(ex.get(fr, x.Index).(*Term), x.Index.Type())
	switch xv := ex.get(fr, x.X).(type) {
	case Str:
		if !ex.require(c.Cmp("bvult", idx, xv.len)) {
			panic(ex.runtimePanicAt("index out of range", x.Pos()))
		}
		return ex.load(ex.elemPtr(xv.p, idx, xv.len, 1), types.Typ[types.Uint8])
	case Agg:
		n := len(xv)
		if !ex.require(c.Cmp("bvult", idx, c.Const(64, uint64(n)))) {
			panic(ex.runtimePanicAt("index out of range", x.Pos()))
		}
		if idx.IsConst() {
			return xv[idx.Val]
		}
		r := xv[n-1]
		for i := n - 2; i >= 0; i-- {
			m, ok := ex.mergeValue(c.Eq(idx, c.Const(64, uint64(i))), xv[i], r)
			if !ok {
				k := ex.concretize(idx, n, "array value index")
				return xv[k]
			}
			r = m
		}
		return r
	}
	panic(unsupported("Index on " + x.X.Type().String()))
}

func (ex *Exec) sliceOp(fr *Frame, x *ssa.Slice) Value {
	c := ex.c
	var base Ptr
	var ln, cp *Term
	var es int64
	isStr := false
	switch xv := ex.get(fr, x.X).(type) {
	case Ptr: // *array
		at := x.X.Type().Underlying().(*types.Pointer).Elem().Underlying().(*types.Array)
		if xv.obj == nil {
			ex.derefCheck(xv)
		}
		n := c.Const(64, uint64(at.Len()))
		base, ln, cp, es = xv, n, n, sizeof(at.Elem())
	case Slice:
		base, ln, cp, es = xv.p, xv.len, xv.cap, sizeof(x.X.Type().Underlying().(*types.Slice).Elem())
	case Str:
		base, ln, cp, es, isStr = xv.p, xv.len, xv.len, 1, true
	default:
		panic(unsupported("slice of " + x.X.Type().String()))
	}
	lo, hi, mx := c.Const(64, 0), ln, cp
	if x.Low != nil {
		lo = ex.toInt64(ex.get(fr, x.Low).(*Term), x.Low.Type())
	}
	if x.High != nil {
		hi = ex.toInt64(ex.get(fr, x.High).(*Term), x.High.Type())
	}
	if x.Max != nil {
		mx = ex.toInt64(ex.get(fr, x.Max).(*Term), x.Max.Type())
	}
	ok := c.AndN(c.Cmp("bvule", lo, hi), c.Cmp("bvule", hi, mx), c.Cmp("bvule", mx, cp))
	if !ex.require(ok) {
		panic(ex.runtimePanicAt("slice bounds out of range", x.Pos()))
	}
	var np Ptr
	if lo.IsConst() {
		np = ex.ptrAdd(base, int64(lo.Val)*es)
	} else {
		np = Ptr{obj: base.obj, off: c.Bin("bvadd", base.off, c.Bin("bvmul", lo, c.Const(64, uint64(es))))}
		if base.dims != nil {
			panic(unsupported("symbolic reslice of symbolically indexed pointer"))
		}
	}
	if isStr {
		return Str{np, c.Bin("bvsub", hi, lo)}
	}
	return Slice{np, c.Bin("bvsub", hi, lo), c.Bin("bvsub", mx, lo)}
}

func (ex *Exec) typeAssert(x *ssa.TypeAssert, iv Iface) Value {
	ok := false
	var res Value
	if iv.typ != nil {
		if it, isIface := x.AssertedType.Underlying().(*types.Interface); isIface {
			ok = types.Implements(iv.typ, it)
			res = iv
		} else {
			ok = types.Identical(iv.typ, x.AssertedType)
			res = iv.v
		}
	}
	if x.CommaOk {
		if ok {
			return Agg{res, ex.c.True()}
		}
		return Agg{ex.zeroOf(x.AssertedType), ex.c.False()}
	}
	if !ok {
		gp := ex.runtimePanic("interface conversion: type assertion failed")
		gp.site = ex.pos(x.Pos())
		panic(gp)
	}
	return res
}
