package gosym

import (
	"encoding/json"
	"fmt"
	"os"
	"path/filepath"
	"sort"
	"time"
)

type harnessEv struct {
	Name         string         `json:"harness"`
	Package      string         `json:"package"`
	Backend      string         `json:"backend"`
	Bounds       []string       `json:"bounds,omitempty"`
	Assumes      []string       `json:"assumes,omitempty"`
	Overrides    [][2]string    `json:"overrides,omitempty"`
	Paths        int            `json:"paths"`
	PathEnds     map[string]int `json:"path_ends"`
	Decisions    int            `json:"decisions"`
	Instructions int64          `json:"ssa_instructions_executed"`
	Asserts      int            `json:"assertions_discharged"`
	AssertSites  map[string]int `json:"assert_sites"`
	Reach        map[string]int `json:"reach"`
	Merged       int            `json:"merged_diamonds"`
	Queries      map[string]int `json:"queries"`
	SolverTimeS  float64        `json:"solver_time_s"`
	WallS        float64        `json:"cpu_wall_s"`
	BudgetHits   int            `json:"budget_hits"`
	WitnessSat   bool           `json:"end_reachable_witness"`
	Validated    int            `json:"models_replayed_natively"`
	Funcs        []string       `json:"functions_encoded"`
	Intrinsics   []string       `json:"intrinsics_and_models"`
}

type Evidence struct {
	PropertyID string `json:"property_id"`
	Tier       string `json:"tier"`
	Seed       int    `json:"seed"`
	Level      string `json:"level"`
	Coverage   struct {
		States           int            `json:"states"`
		Transitions      int            `json:"transitions"`
		TracesValidated  int            `json:"traces_validated_against_impl"`
		Samples          []interface{}  `json:"samples"`
		Rule             string         `json:"rule"`
		Harnesses        []harnessEv    `json:"harnesses"`
		FunctionsEncoded []string       `json:"functions_encoded"`
		Queries          map[string]int `json:"queries"`
		SolverTimeS      float64        `json:"solver_time_s"`
		Technique        string         `json:"technique"`
		NotCovered       []string       `json:"not_covered,omitempty"`
	} `json:"coverage"`
	Assumptions   []string `json:"assumptions"`
	WallS         float64  `json:"wall_s"`
	Violations    int      `json:"violations"`
	KnownFindings []string `json:"known_findings,omitempty"`
	Inconclusive  []string `json:"inconclusive,omitempty"`
	Incomplete    []string `json:"incomplete,omitempty"`

	funcs map[string]bool
	hidx  map[string]int
}

func newEvidence(o RunOpts, seed int) *Evidence {
	ev := &Evidence{PropertyID: o.Property, Tier: o.Tier, Seed: seed, Level: "model_checking", funcs: map[string]bool{}, hidx: map[string]int{}}
	ev.Coverage.Queries = map[string]int{}
	ev.Coverage.Technique = "bounded symbolic execution of go/ssa (encoding regenerated from /repo on this run) with SMT bit-vector queries (cvc5/z3); every feasible path explored, every assertion discharged as path-condition AND NOT assertion"
	ev.Coverage.Rule = "state = one completed symbolic path of a harness (a class of concrete executions, all inputs inside the stated bounds); transition = one solver-decided branch; sample = decision string and end of a path"
	ev.Assumptions = []string{
		"go/ssa translation, gosym interpreter and simplifier (validated by native replay of solver models, not proved)",
		"types.SizesFor(gc, amd64) layout",
		"cvc5 1.0 / z3 4.8.12 / z3 5.1.0 answers",
		"A-ADDR: raw regions sit at concrete, suitably aligned base addresses chosen by the harness",
	}
	return ev
}

func (ev *Evidence) addHarness(h *Harness, r *Result) {
	he := harnessEv{Name: h.Name, Package: h.Pkg, Backend: h.Backend, Bounds: h.Bounds, Assumes: h.Assumes, Overrides: h.Overrides,
		Paths: r.Paths, PathEnds: r.PathEnds, Decisions: r.Decisions, Instructions: r.Instrs, Asserts: r.Asserts, AssertSites: r.AssertSites,
		Reach: r.Reach, Merged: r.Merged, SolverTimeS: r.Solver.Time.Seconds(), WallS: r.Wall.Seconds(), BudgetHits: r.BudgetHits, WitnessSat: r.TwinSat,
		Queries: map[string]int{"total": r.Solver.Queries, "sat": r.Solver.Sat, "unsat": r.Solver.Unsat, "unknown": r.Solver.Unknown, "escalated": r.Solver.Escalated, "errors": r.Solver.Errors}}
	if he.Backend == "" {
		he.Backend = "cvc5"
	}
	he.Funcs = sortedKeysBool(r.Funcs)
	he.Intrinsics = sortedKeysBool(r.Intrinsics)
	for f := range r.Funcs {
		ev.funcs[f] = true
	}
	ev.hidx[h.Name] = len(ev.Coverage.Harnesses)
	ev.Coverage.Harnesses = append(ev.Coverage.Harnesses, he)
	ev.Coverage.States += r.PathEnds["ok"]
	for k, v := range r.PathEnds {
		if len(k) > 5 && (k[:5] == "panic" || k[:5] == "viola") {
			ev.Coverage.States += v
		}
	}
	ev.Coverage.Transitions += r.Decisions
	for k, v := range he.Queries {
		ev.Coverage.Queries[k] += v
	}
	ev.Coverage.SolverTimeS += r.Solver.Time.Seconds()
	for _, s := range r.Samples {
		if len(ev.Coverage.Samples) < 24 {
			ev.Coverage.Samples = append(ev.Coverage.Samples, map[string]interface{}{"harness": h.Name, "decisions": s.Decisions, "end": s.End})
		}
	}
	for _, b := range h.Bounds {
		ev.Assumptions = appendUnique(ev.Assumptions, h.Name+" bounds: "+b)
	}
	for _, a := range h.Assumes {
		ev.Assumptions = appendUnique(ev.Assumptions, h.Name+" assumes: "+a)
	}
	for _, o := range h.Overrides {
		ev.Assumptions = appendUnique(ev.Assumptions, h.Name+" symbolic-only override: "+o[0]+" -> "+o[1])
	}
}

func appendUnique(s []string, x string) []string {
	for _, y := range s {
		if y == x {
			return s
		}
	}
	return append(s, x)
}

func (ev *Evidence) finish(path string, wall time.Duration) {
	ev.WallS = wall.Seconds()
	ev.Coverage.FunctionsEncoded = sortedKeysBool(ev.funcs)
	sort.Strings(ev.Coverage.FunctionsEncoded)
	if len(ev.Coverage.Samples) == 0 {
		ev.Coverage.Samples = []interface{}{"no path completed"}
	}
	b, _ := json.MarshalIndent(ev, "", " ")
	os.MkdirAll(filepath.Dir(path), 0o755)
	os.WriteFile(path, b, 0o644)
}

func writeEvidenceFailure(path string, o RunOpts, seed int, msg string, wall time.Duration) {
	ev := newEvidence(o, seed)
	ev.Inconclusive = []string{msg}
	ev.Coverage.Samples = []interface{}{"run failed before exploration: " + msg}
	ev.finish(path, wall)
}

// validateSamples replays end-of-path models natively: the native run must complete without an assertion failure.
func (ev *Evidence) validateSamples(o RunOpts, ld *Loaded, aggs map[string]*harnessAgg, outDir string, inconclusive *[]string) {
	k := 1
	if o.Tier == "thorough" {
		k = 4
	}
	names := make([]string, 0, len(aggs))
	for n := range aggs {
		names = append(names, n)
	}
	sort.Strings(names)
	for _, n := range names {
		ag := aggs[n]
		var ws []Violation
		for _, r := range ag.res {
			ws = append(ws, r.Witness...)
		}
		if len(ws) == 0 {
			continue
		}
		// rotate by seed
		start := 0
		if len(ws) > 0 {
			start = ev.Seed % len(ws)
			if start < 0 {
				start = -start
			}
		}
		done := 0
		for i := 0; i < len(ws) && done < k; i++ {
			w := ws[(start+i)%len(ws)]
			path := filepath.Join(outDir, "replay", fmt.Sprintf("%s-witness-%d.json", n, i))
			b, _ := json.MarshalIndent(w, "", " ")
			os.WriteFile(path, b, 0o644)
			ok, out := NativeReplay(o.VerifDir, ld, ag.h, path, &w)
			if !ok {
				*inconclusive = append(*inconclusive, fmt.Sprintf("%s: model of a passing path did not pass natively (encoder/native mismatch): %s", n, lastLines(out, 6)))
			} else {
				ev.Coverage.TracesValidated++
				ev.Coverage.Harnesses[ev.hidx[n]].Validated++
			}
			done++
		}
	}
}
