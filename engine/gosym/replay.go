package gosym

import (
	"bytes"
	"context"
	"encoding/json"
	"fmt"
	"os"
	"os/exec"
	"path/filepath"
	"sort"
	"strings"
	"sync"
	"time"
)

var (
	replayMu   sync.Mutex
	replayBins = map[string]string{} // pkg dir -> test binary ("" = build failed)
	replayErrs = map[string]string{}
)

func pkgRelDir(pkgPath string) string {
	return strings.TrimPrefix(strings.TrimPrefix(pkgPath, KernelMod), "/")
}

// buildReplayBinary compiles the package's test binary with harnesses, native zzverif and a generated driver.
func buildReplayBinary(verifDir string, ld *Loaded, pkgPath string, outDir string) (string, string) {
	replayMu.Lock()
	defer replayMu.Unlock()
	rel := pkgRelDir(pkgPath)
	if b, ok := replayBins[rel]; ok {
		return b, replayErrs[rel]
	}
	harnessDir := filepath.Join(verifDir, "harness")
	repl := map[string]string{}
	filepath.Walk(harnessDir, func(p string, info os.FileInfo, err error) error {
		if err != nil || info.IsDir() || !strings.HasSuffix(p, ".go") {
			return nil
		}
		r, _ := filepath.Rel(harnessDir, p)
		if filepath.Dir(r) == "zzverif" && filepath.Base(r) == "sym.go" {
			return nil
		}
		repl[filepath.Join(KernelDir, r)] = p
		return nil
	})
	// driver
	var names []string
	for _, h := range ld.Harnesses {
		if h.Pkg == pkgPath {
			names = append(names, h.Name)
		}
	}
	sort.Strings(names)
	pkgName := ""
	for _, h := range ld.Harnesses {
		if h.Pkg == pkgPath {
			pkgName = h.Fn.Pkg.Pkg.Name()
		}
	}
	var sb strings.Builder
	fmt.Fprintf(&sb, "//go:build verif\n\npackage %s\n\nimport (\n\t\"testing\"\n\n\t\"%s/zzverif\"\n)\n\nfunc TestVerifReplay(t *testing.T) {\n\tzzverif.RunReplay(map[string]func(){\n", pkgName, KernelMod)
	for _, n := range names {
		fmt.Fprintf(&sb, "\t\t%q: %s,\n", n, n)
	}
	sb.WriteString("\t})\n}\n")
	work := filepath.Join(outDir, "replay", "build-"+strings.ReplaceAll(rel, "/", "_"))
	os.MkdirAll(work, 0o755)
	drv := filepath.Join(work, "zz_verif_replay_test.go")
	os.WriteFile(drv, []byte(sb.String()), 0o644)
	repl[filepath.Join(KernelDir, rel, "zz_verif_replay_test.go")] = drv
	ovb, _ := json.Marshal(map[string]interface{}{"Replace": repl})
	ovf := filepath.Join(work, "overlay.json")
	os.WriteFile(ovf, ovb, 0o644)
	bin := filepath.Join(work, "replay.test")
	ctx, cancel := context.WithTimeout(context.Background(), 5*time.Minute)
	defer cancel()
	cmd := exec.CommandContext(ctx, "go", "test", "-tags", "verif", "-vet=off", "-c", "-o", bin, "-overlay", ovf, "./"+rel)
	cmd.Dir = KernelDir
	cmd.Env = append(os.Environ(), "GOFLAGS=-mod=mod", "GOPROXY=off", "GOSUMDB=off", "GOTOOLCHAIN=local", "GOWORK=off")
	var out bytes.Buffer
	cmd.Stdout, cmd.Stderr = &out, &out
	if err := cmd.Run(); err != nil {
		replayBins[rel] = ""
		replayErrs[rel] = "native replay build failed: " + err.Error() + "\n" + out.String()
		return "", replayErrs[rel]
	}
	replayBins[rel] = bin
	return bin, ""
}

// NativeReplay runs the harness natively with the model's values and reports
// whether the native outcome matches what the symbolic run predicted.
func NativeReplay(verifDir string, ld *Loaded, h *Harness, replayPath string, v *Violation) (bool, string) {
	outDir := filepath.Dir(filepath.Dir(replayPath))
	bin, berr := buildReplayBinary(verifDir, ld, h.Pkg, outDir)
	if bin == "" {
		return false, berr
	}
	ctx, cancel := context.WithTimeout(context.Background(), 120*time.Second)
	defer cancel()
	cmd := exec.CommandContext(ctx, bin, "-test.run", "^TestVerifReplay$", "-test.v", "-test.timeout", "100s")
	cmd.Dir = filepath.Join(KernelDir, pkgRelDir(h.Pkg))
	cmd.Env = append(os.Environ(), "VERIF_REPLAY="+replayPath)
	var out bytes.Buffer
	cmd.Stdout, cmd.Stderr = &out, &out
	err := cmd.Run()
	txt := out.String()
	timedOut := ctx.Err() != nil || strings.Contains(txt, "test timed out")
	crashed := strings.Contains(txt, "fatal error:") || strings.Contains(txt, "unexpected fault address") || strings.Contains(txt, "SIGSEGV") || strings.Contains(txt, "stack overflow")
	_ = err
	switch v.Kind {
	case "witness":
		return strings.Contains(txt, "VERIF-REPLAY: COMPLETED"), txt
	case "assert":
		return strings.Contains(txt, "VERIF-REPLAY: ASSERT-FAILED site="+v.Site+"\n") || strings.Contains(txt, "VERIF-REPLAY: ASSERT-FAILED site="+v.Site+" "), txt
	case "panic":
		return strings.Contains(txt, "VERIF-REPLAY: PANIC") || crashed, txt
	case "memory":
		// out-of-region accesses fault on the guard page; self-deadlock shows as a timeout
		return crashed || timedOut || strings.Contains(txt, "VERIF-REPLAY: PANIC"), txt
	case "budget":
		return crashed || timedOut, txt
	}
	return false, txt
}

// ReplayFile re-runs a stored counterexample (vcheck --replay).
func ReplayFile(verifDir, path string) int {
	b, err := os.ReadFile(path)
	if err != nil {
		fmt.Println(err)
		return 2
	}
	var v Violation
	if err := json.Unmarshal(b, &v); err != nil {
		fmt.Println(err)
		return 2
	}
	parts := strings.SplitN(v.Harness, "_", 3)
	if len(parts) < 3 {
		fmt.Println("bad harness name in replay file")
		return 2
	}
	harnessDir := filepath.Join(verifDir, "harness")
	dirs, err := PropertyDirs(harnessDir, parts[1])
	if err != nil || len(dirs) == 0 {
		fmt.Println("no harness dirs for", parts[1])
		return 2
	}
	ld, err := Load(harnessDir, dirs)
	if err != nil {
		fmt.Println(err)
		return 2
	}
	for _, h := range ld.Harnesses {
		if h.Name == v.Harness {
			tmp := filepath.Join(verifDir, "out", parts[1]+"-replay", "replay")
			os.MkdirAll(tmp, 0o755)
			rp := filepath.Join(tmp, filepath.Base(path))
			os.WriteFile(rp, b, 0o644)
			ok, out := NativeReplay(verifDir, ld, h, rp, &v)
			fmt.Println(out)
			if ok {
				fmt.Printf("REPRODUCED %s %s\n", v.Harness, v.Site)
				fmt.Printf("VIOLATION property=%s replay=%s\n", parts[1], path)
				return 1
			}
			fmt.Println("NOT-REPRODUCED")
			return 0
		}
	}
	fmt.Println("harness not found:", v.Harness)
	return 2
}
