// Package gosym is a symbolic interpreter for go/ssa.
package gosym

import (
	"fmt"
	"go/types"

	"golang.org/x/tools/go/ssa"

	"verif/engine/smt"
)

type Term = smt.Term

// Value is one of: *Term, Ptr, Slice, Str, Func, Agg, Iface, *MapObj, *ssa.Builtin, nil (absent).
type Value interface{}

// dim is one symbolic index dimension of a pointer into a Go object.
type dim struct {
	stride int64
	count  int64
	idx    *Term // BV64, constrained (by the bounds check already on the path) to [0,count)
}

// Ptr is a fat pointer. obj==nil: nil pointer when off is the constant 0,
// otherwise a wild address (off holds the absolute address).
type Ptr struct {
	obj   *Obj
	off   *Term // BV64 byte offset inside obj (full symbolic offset)
	cbase int64 // when dims != nil: off == cbase + sum(idx_k*stride_k)
	dims  []dim
	safe  bool // the element addressed lies inside the object (shown by the Go bounds check already on the path)
}

type Slice struct {
	p        Ptr
	len, cap *Term // BV64
}

type Str struct {
	p   Ptr
	len *Term
}

type Func struct {
	fn  *ssa.Function
	env []Value
}

type Agg []Value

type Iface struct {
	typ types.Type // nil => nil interface
	v   Value
}

type mapEntry struct {
	k, v Value
}

type MapObj struct {
	id      int
	entries []mapEntry
	keyT    types.Type
	valT    types.Type
	initLen int // entries at snapshot time (for maps created during init)
	saved   []mapEntry
}

var sizes = types.SizesFor("gc", "amd64")

func sizeof(t types.Type) int64 { return sizes.Sizeof(t) }

func isUnsigned(t types.Type) bool {
	b, ok := t.Underlying().(*types.Basic)
	return ok && b.Info()&types.IsUnsigned != 0
}
func isBool(t types.Type) bool {
	b, ok := t.Underlying().(*types.Basic)
	return ok && b.Info()&types.IsBoolean != 0
}
func isString(t types.Type) bool {
	b, ok := t.Underlying().(*types.Basic)
	return ok && b.Info()&types.IsString != 0
}
func isInteger(t types.Type) bool {
	b, ok := t.Underlying().(*types.Basic)
	return ok && b.Info()&types.IsInteger != 0
}
func isUnsafePointer(t types.Type) bool {
	b, ok := t.Underlying().(*types.Basic)
	return ok && b.Kind() == types.UnsafePointer
}
func isPointerLike(t types.Type) bool {
	if isUnsafePointer(t) {
		return true
	}
	_, ok := t.Underlying().(*types.Pointer)
	return ok
}
func width(t types.Type) int { return int(sizeof(t)) * 8 }

func (ex *Exec) nilPtr() Ptr { return Ptr{off: ex.c.Const(64, 0)} }

func (p Ptr) isNilConst() bool { return p.obj == nil && p.off.IsConst() && p.off.Val == 0 }

func (ex *Exec) zeroOf(t types.Type) Value {
	switch u := t.Underlying().(type) {
	case *types.Basic:
		switch {
		case u.Kind() == types.String, u.Kind() == types.UntypedString:
			return Str{ex.nilPtr(), ex.c.Const(64, 0)}
		case u.Kind() == types.UnsafePointer:
			return ex.nilPtr()
		case u.Info()&types.IsBoolean != 0:
			return ex.c.False()
		case u.Info()&types.IsInteger != 0:
			return ex.c.Const(width(t), 0)
		case u.Kind() == types.UntypedNil:
			return ex.nilPtr()
		}
		panic(unsupported("zero value of " + t.String()))
	case *types.Pointer:
		return ex.nilPtr()
	case *types.Slice:
		return Slice{ex.nilPtr(), ex.c.Const(64, 0), ex.c.Const(64, 0)}
	case *types.Signature:
		return Func{}
	case *types.Interface:
		return Iface{}
	case *types.Struct:
		a := make(Agg, u.NumFields())
		for i := range a {
			a[i] = ex.zeroOf(u.Field(i).Type())
		}
		return a
	case *types.Array:
		a := make(Agg, u.Len())
		for i := range a {
			a[i] = ex.zeroOf(u.Elem())
		}
		return a
	case *types.Map:
		return (*MapObj)(nil)
	case *types.Tuple:
		a := make(Agg, u.Len())
		for i := range a {
			a[i] = ex.zeroOf(u.At(i).Type())
		}
		return a
	case *types.Chan:
		return ex.nilPtr()
	}
	panic(unsupported("zero value of " + t.String()))
}

// unsupportedErr marks something the executor does not model => INCONCLUSIVE.
type unsupportedErr struct{ what string }

func unsupported(what string) unsupportedErr { return unsupportedErr{what} }

// mergeValue builds ite(c, a, b) over values of the same shape; ok=false if
// the shapes cannot be merged without forking.
func (ex *Exec) mergeValue(c *Term, a, b Value) (Value, bool) {
	switch x := a.(type) {
	case *Term:
		y, ok := b.(*Term)
		if !ok || x.W != y.W {
			return nil, false
		}
		return ex.c.Ite(c, x, y), true
	case Ptr:
		y, ok := b.(Ptr)
		if !ok {
			return nil, false
		}
		if x.obj == y.obj && x.dims == nil && y.dims == nil {
			return Ptr{obj: x.obj, off: ex.c.Ite(c, x.off, y.off)}, true
		}
		return nil, false
	case Slice:
		y, ok := b.(Slice)
		if !ok {
			return nil, false
		}
		p, ok := ex.mergeValue(c, x.p, y.p)
		if !ok {
			return nil, false
		}
		return Slice{p.(Ptr), ex.c.Ite(c, x.len, y.len), ex.c.Ite(c, x.cap, y.cap)}, true
	case Str:
		y, ok := b.(Str)
		if !ok {
			return nil, false
		}
		p, ok := ex.mergeValue(c, x.p, y.p)
		if !ok {
			return nil, false
		}
		return Str{p.(Ptr), ex.c.Ite(c, x.len, y.len)}, true
	case Agg:
		y, ok := b.(Agg)
		if !ok || len(x) != len(y) {
			return nil, false
		}
		r := make(Agg, len(x))
		for i := range x {
			v, ok := ex.mergeValue(c, x[i], y[i])
			if !ok {
				return nil, false
			}
			r[i] = v
		}
		return r, true
	case Iface:
		y, ok := b.(Iface)
		if !ok {
			return nil, false
		}
		if x.typ == nil && y.typ == nil {
			return x, true
		}
		if x.typ == nil || y.typ == nil || !types.Identical(x.typ, y.typ) {
			return nil, false
		}
		v, ok := ex.mergeValue(c, x.v, y.v)
		if !ok {
			return nil, false
		}
		return Iface{x.typ, v}, true
	case Func:
		y, ok := b.(Func)
		if ok && x.fn == y.fn && len(x.env) == 0 && len(y.env) == 0 {
			return x, true
		}
		return nil, false
	case *MapObj:
		y, ok := b.(*MapObj)
		if ok && x == y {
			return x, true
		}
		return nil, false
	case nil:
		if b == nil {
			return nil, true
		}
	}
	return nil, false
}

func (ex *Exec) sameValue(a, b Value) bool {
	switch x := a.(type) {
	case *Term:
		y, ok := b.(*Term)
		return ok && x == y
	case Ptr:
		y, ok := b.(Ptr)
		return ok && x.obj == y.obj && x.off == y.off && len(x.dims) == 0 && len(y.dims) == 0
	case Slice:
		y, ok := b.(Slice)
		return ok && ex.sameValue(x.p, y.p) && x.len == y.len && x.cap == y.cap
	case Str:
		y, ok := b.(Str)
		return ok && ex.sameValue(x.p, y.p) && x.len == y.len
	case Agg:
		y, ok := b.(Agg)
		if !ok || len(x) != len(y) {
			return false
		}
		for i := range x {
			if !ex.sameValue(x[i], y[i]) {
				return false
			}
		}
		return true
	case Iface:
		y, ok := b.(Iface)
		if !ok {
			return false
		}
		if x.typ == nil || y.typ == nil {
			return x.typ == nil && y.typ == nil
		}
		return types.Identical(x.typ, y.typ) && ex.sameValue(x.v, y.v)
	case Func:
		y, ok := b.(Func)
		return ok && x.fn == y.fn && len(x.env) == 0 && len(y.env) == 0
	case *MapObj:
		y, ok := b.(*MapObj)
		return ok && x == y
	}
	return false
}

func describe(v Value) string {
	switch x := v.(type) {
	case *Term:
		if x.IsConst() {
			return fmt.Sprintf("%#x", x.Val)
		}
		return fmt.Sprintf("<sym bv%d>", x.W)
	case Ptr:
		if x.obj == nil {
			return "nil/wild"
		}
		return "&" + x.obj.name
	}
	return fmt.Sprintf("%T", v)
}
