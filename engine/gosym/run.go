package gosym

import (
	"encoding/json"
	"fmt"
	"os"
	"path/filepath"
	"runtime"
	"sort"
	"strconv"
	"strings"
	"sync"
	"time"

	"verif/engine/smt"
)

type RunOpts struct {
	Property string
	Tier     string
	Only     string
	VerifDir string
	Workers  int
	Verbose  bool
	NoReplay bool
}

type KnownFinding struct {
	ID       string `json:"id"`
	Property string `json:"property"`
	Status   string `json:"status"` // open | fixed
	Harness  string `json:"harness,omitempty"`
	What     string `json:"what"`
	Input    string `json:"input,omitempty"`
	Commit   string `json:"commit,omitempty"`
}

type job struct {
	h      *Harness
	prefix []Decision
	root   []AuxRec
	front  int
}

type harnessAgg struct {
	h    *Harness
	res  []*Result
	errs []string
}

func defaultCfg(tier string, scratch string) Config {
	c := Config{Tier: tier, Backend: smt.BackendCVC5, SoftMS: 5000, HardS: 20, Scratch: scratch,
		InstrBudget: 20_000_000, DepthBudget: 300, MaxDecisions: 600, BatchMax: 12}
	c.TimeBudget = 8 * time.Minute
	if tier == "thorough" {
		c.HardS = 120
		c.SoftMS = 10000
		c.TimeBudget = 22 * time.Minute
	}
	return c
}

var runDeadline time.Time

func cfgFor(h *Harness, tier, scratch string) Config {
	cfg := defaultCfg(tier, scratch)
	cfg.Deadline = runDeadline
	switch h.Backend {
	case "int":
		cfg.Backend = smt.BackendCVC5Int
	case "z3":
		cfg.Backend = smt.BackendZ3
	case "z3plain":
		cfg.Backend = smt.BackendZ3Plain
	case "cvc5", "bv", "":
	}
	if h.Budget > 0 {
		cfg.InstrBudget = h.Budget
	}
	if h.Depth > 0 {
		cfg.DepthBudget = h.Depth
	}
	if h.SoftMS > 0 {
		cfg.SoftMS = h.SoftMS
	}
	cfg.ConcretizeN = h.ConcretizeN
	if h.MaxDecisions > 0 {
		cfg.MaxDecisions = h.MaxDecisions
	}
	cfg.BudgetIsViolation = h.BudgetViolation
	cfg.NoMerge = h.NoMerge
	return cfg
}

// RunProperty runs every harness of a property and returns the process exit code.
func RunProperty(o RunOpts) int {
	t0 := time.Now()
	runDeadline = t0.Add(9 * time.Minute)
	if o.Tier == "thorough" {
		runDeadline = t0.Add(26 * time.Minute)
	}
	if o.Workers <= 0 {
		o.Workers = runtime.NumCPU()
	}
	seed := 0
	if s := os.Getenv("VERIF_SEED"); s != "" {
		seed, _ = strconv.Atoi(s)
	}
	harnessDir := filepath.Join(o.VerifDir, "harness")
	outDir := filepath.Join(o.VerifDir, "out", o.Property)
	os.RemoveAll(outDir)
	os.MkdirAll(filepath.Join(outDir, "replay"), 0o755)
	os.MkdirAll(filepath.Join(outDir, "scratch"), 0o755)
	os.MkdirAll(filepath.Join(o.VerifDir, "evidence"), 0o755)
	evPath := filepath.Join(o.VerifDir, "evidence", o.Property+".json")

	fail := func(msg string) int {
		fmt.Println("INCONCLUSIVE:", msg)
		writeEvidenceFailure(evPath, o, seed, msg, time.Since(t0))
		return 3
	}

	dirs, err := PropertyDirs(harnessDir, o.Property)
	if err != nil || len(dirs) == 0 {
		return fail(fmt.Sprintf("no harness for property %s (%v)", o.Property, err))
	}
	ld, err := Load(harnessDir, dirs)
	if err != nil {
		return fail(err.Error())
	}
	var hs []*Harness
	for _, h := range ld.Harnesses {
		if h.Property != o.Property {
			continue
		}
		if o.Only != "" && !strings.Contains(h.Name, o.Only) {
			continue
		}
		if h.Tier == "thorough" && o.Tier != "thorough" {
			continue
		}
		if h.Tier == "quick" && o.Tier != "quick" {
			continue
		}
		hs = append(hs, h)
	}
	if len(hs) == 0 {
		return fail("no harness selected")
	}
	fmt.Printf("[%s] tier=%s harnesses=%d load+ssa=%.1fs\n", o.Property, o.Tier, len(hs), time.Since(t0).Seconds())

	aggs := map[string]*harnessAgg{}
	for _, h := range hs {
		aggs[h.Name] = &harnessAgg{h: h}
	}
	var mu sync.Mutex
	jobs := make(chan job, 1<<16)
	var pending sync.WaitGroup
	addJob := func(j job) {
		pending.Add(1)
		jobs <- j
	}
	scratch := filepath.Join(outDir, "scratch")
	worker := func() {
		cache := map[string]*Exec{}
		defer func() {
			for _, ex := range cache {
				ex.Close()
			}
		}()
		for j := range jobs {
			func() {
				defer pending.Done()
				if time.Now().After(runDeadline) {
					mu.Lock()
					aggs[j.h.Name].errs = append(aggs[j.h.Name].errs, "run deadline reached before this exploration job started")
					mu.Unlock()
					return
				}
				ag := aggs[j.h.Name]
				ex := cache[j.h.Name]
				if ex == nil {
					var err error
					ex, err = NewExec(ld, j.h, cfgFor(j.h, o.Tier, scratch))
					if err != nil {
						mu.Lock()
						ag.errs = append(ag.errs, err.Error())
						mu.Unlock()
						return
					}
					cache[j.h.Name] = ex
				}
				var res *Result
				func() {
					defer func() {
						if r := recover(); r != nil {
							buf := make([]byte, 1<<14)
							n := runtime.Stack(buf, false)
							mu.Lock()
							ag.errs = append(ag.errs, fmt.Sprintf("engine panic: %v\n%s", r, buf[:n]))
							mu.Unlock()
							ex.Close()
							delete(cache, j.h.Name)
						}
					}()
					res = ex.Explore(j.h.Fn, j.prefix, j.root, j.front)
				}()
				if res == nil {
					return
				}
				mu.Lock()
				ag.res = append(ag.res, res)
				mu.Unlock()
				if o.Verbose {
					fmt.Printf("  %s prefix=%d paths=%d ends=%v wall=%.1fs\n", j.h.Name, len(j.prefix), res.Paths, res.PathEnds, res.Wall.Seconds())
				}
				for _, pre := range res.Frontier {
					addJob(job{h: j.h, prefix: pre, root: res.FrontierRoot})
				}
			}()
		}
	}
	for i := 0; i < o.Workers; i++ {
		go worker()
	}
	for _, h := range hs {
		addJob(job{h: h, front: h.Split})
	}
	pending.Wait()
	close(jobs)

	// ---------- aggregate ----------
	kfs := loadKnownFindings(filepath.Join(o.VerifDir, "known_findings.json"))
	exit := 0
	var inconclusive []string
	var allViol []Violation
	knownHit := map[string]string{}
	ev := newEvidence(o, seed)
	names := make([]string, 0, len(aggs))
	for n := range aggs {
		names = append(names, n)
	}
	sort.Strings(names)
	for _, n := range names {
		ag := aggs[n]
		hr := mergeResults(ag)
		ev.addHarness(ag.h, hr)
		for _, e := range ag.errs {
			inconclusive = append(inconclusive, n+": "+e)
		}
		for _, e := range hr.Inconclusive {
			inconclusive = append(inconclusive, n+": "+e)
		}
		// vacuity (not judged for a harness whose exploration was cut short by the time box)
		completed := hr.PathEnds["ok"]
		cut := false
		for _, e := range append(append([]string(nil), ag.errs...), hr.Inconclusive...) {
			if strings.Contains(e, "(exploration incomplete)") || strings.Contains(e, "run deadline reached before this exploration job started") {
				cut = true
			}
		}
		if !cut && len(ag.errs) == 0 && completed == 0 && len(hr.Violations) == 0 && len(hr.KnownHits) == 0 {
			inconclusive = append(inconclusive, n+": vacuous: no path reaches the end of the harness")
		}
		if completed > 0 && !hr.TwinSat {
			inconclusive = append(inconclusive, n+": vacuity witness failed: end of harness not shown reachable")
		}
		for id, what := range hr.KnownHits {
			knownHit[id] = what
		}
		allViol = append(allViol, hr.Violations...)
		fmt.Printf("  %-40s paths=%d ok=%d decisions=%d (one-sided %d, fact-hits %d) asserts=%d queries=%d (sat %d unsat %d unknown %d esc %d) solver=%.1fs wall=%.1fs viol=%d\n",
			n, hr.Paths, completed, hr.Decisions, hr.OneSided, hr.FactHits, hr.Asserts, hr.Solver.Queries, hr.Solver.Sat, hr.Solver.Unsat, hr.Solver.Unknown, hr.Solver.Escalated,
			hr.Solver.Time.Seconds(), hr.Wall.Seconds(), len(hr.Violations))
	}
	// known findings
	for id, what := range knownHit {
		kf := findKF(kfs, id)
		if kf == nil || kf.Status != "open" || kf.Property != o.Property {
			inconclusive = append(inconclusive, fmt.Sprintf("harness references known finding %s which is not listed as open for %s in known_findings.json (%s)", id, o.Property, what))
			continue
		}
		fmt.Printf("KNOWN-FINDING: property=%s %s [%s]\n", o.Property, kf.What, id)
		ev.KnownFindings = append(ev.KnownFindings, id)
	}
	// violations: dedupe by harness+site, write replay files, replay natively
	seen := map[string]bool{}
	nviol := 0
	for _, v := range allViol {
		key := v.Harness + "|" + v.Kind + "|" + v.Site
		if seen[key] {
			continue
		}
		seen[key] = true
		nviol++
		path := filepath.Join(outDir, "replay", fmt.Sprintf("%s-%d.json", v.Harness, nviol))
		b, _ := json.MarshalIndent(v, "", " ")
		os.WriteFile(path, b, 0o644)
		status := "not-replayed"
		if v.Kind == "monitor" {
			// lock-discipline monitor: a sequential native run has no oracle for an unlocked access
			status = "monitor (no native oracle; symbolic lock monitor)"
		} else if !o.NoReplay {
			ok, out := NativeReplay(o.VerifDir, ld, aggs[v.Harness].h, path, &v)
			if ok {
				status = "reproduced"
			} else {
				status = "NOT-REPRODUCED"
				inconclusive = append(inconclusive, fmt.Sprintf("%s: solver counterexample at %q did not reproduce natively (encoding or stub wrong?): %s", v.Harness, v.Site, lastLines(out, 6)))
			}
		}
		fmt.Printf("  violation candidate: %s kind=%s site=%q msg=%q replay=%s\n", v.Harness, v.Kind, v.Site, v.Msg, status)
		if status != "NOT-REPRODUCED" {
			fmt.Printf("VIOLATION property=%s replay=%s\n", o.Property, path)
			exit = 1
			ev.Violations++
		}
		if len(v.Inputs) > 0 {
			var kv []string
			for _, in := range v.Inputs {
				kv = append(kv, fmt.Sprintf("%s=%#x", in.Name, in.Value))
			}
			fmt.Printf("    inputs: %s\n", strings.Join(kv, " "))
		}
	}
	// native validation of end-of-path models (encoder validation)
	if !o.NoReplay && exit == 0 {
		ev.validateSamples(o, ld, aggs, outDir, &inconclusive)
	}
	// A time box that ran out is not a defect of the tree or of the check: the part explored held. It is reported
	// (INCOMPLETE line, evidence "incomplete", exhaustive=false) and does not change the exit status; everything
	// else that prevents a verdict (solver unknown, unsupported construct, vacuity, replay mismatch) stays exit 3.
	var incomplete, blocking []string
	for _, s := range inconclusive {
		if strings.Contains(s, "(exploration incomplete)") || strings.Contains(s, "run deadline reached before this exploration job started") {
			incomplete = append(incomplete, s)
		} else {
			blocking = append(blocking, s)
		}
	}
	inconclusive = blocking
	if exit == 0 && len(inconclusive) > 0 {
		exit = 3
	}
	for _, s := range inconclusive {
		fmt.Println("INCONCLUSIVE:", s)
	}
	for _, s := range incomplete {
		fmt.Println("INCOMPLETE:", s)
	}
	ev.Inconclusive = inconclusive
	ev.Incomplete = incomplete
	ev.finish(evPath, time.Since(t0))
	verdict := map[int]string{0: "HOLDS (within bounds)", 1: "VIOLATION", 3: "INCONCLUSIVE"}[exit]
	if exit == 0 && len(incomplete) > 0 {
		verdict = "HOLDS on the part explored (time box reached: exploration incomplete)"
	}
	fmt.Printf("[%s] %s wall=%.1fs\n", o.Property, verdict, time.Since(t0).Seconds())
	return exit
}

func lastLines(s string, n int) string {
	ls := strings.Split(strings.TrimSpace(s), "\n")
	if len(ls) > n {
		ls = ls[len(ls)-n:]
	}
	return strings.Join(ls, " | ")
}

func mergeResults(ag *harnessAgg) *Result {
	m := &Result{Harness: ag.h.Name, PathEnds: map[string]int{}, AssertSites: map[string]int{}, Reach: map[string]int{},
		KnownHits: map[string]string{}, Funcs: map[string]bool{}, Intrinsics: map[string]bool{}, Assumes: map[string]int{}}
	for _, r := range ag.res {
		m.Paths += r.Paths
		for k, v := range r.PathEnds {
			m.PathEnds[k] += v
		}
		m.Decisions += r.Decisions
		m.Instrs += r.Instrs
		m.Asserts += r.Asserts
		for k, v := range r.AssertSites {
			m.AssertSites[k] += v
		}
		for k, v := range r.Reach {
			m.Reach[k] += v
		}
		m.Violations = append(m.Violations, r.Violations...)
		for k, v := range r.KnownHits {
			m.KnownHits[k] = v
		}
		m.Inconclusive = append(m.Inconclusive, r.Inconclusive...)
		for k := range r.Funcs {
			m.Funcs[k] = true
		}
		for k := range r.Intrinsics {
			m.Intrinsics[k] = true
		}
		m.Merged += r.Merged
		if r.MaxCands > m.MaxCands {
			m.MaxCands = r.MaxCands
		}
		m.Solver.Queries += r.Solver.Queries
		m.Solver.Sat += r.Solver.Sat
		m.Solver.Unsat += r.Solver.Unsat
		m.Solver.Unknown += r.Solver.Unknown
		m.Solver.Escalated += r.Solver.Escalated
		m.Solver.Errors += r.Solver.Errors
		m.Solver.Time += r.Solver.Time
		m.Wall += r.Wall
		for _, s := range r.Samples {
			if len(m.Samples) < 12 {
				m.Samples = append(m.Samples, s)
			}
		}
		m.BudgetHits += r.BudgetHits
		m.FactHits += r.FactHits
		m.OneSided += r.OneSided
		m.TwinSat = m.TwinSat || r.TwinSat
		m.Witness = append(m.Witness, r.Witness...)
	}
	m.PathEnds["frontier"] = 0
	delete(m.PathEnds, "frontier")
	return m
}

func loadKnownFindings(path string) []KnownFinding {
	b, err := os.ReadFile(path)
	if err != nil {
		return nil
	}
	var kfs []KnownFinding
	if err := json.Unmarshal(b, &kfs); err != nil {
		fmt.Fprintln(os.Stderr, "known_findings.json:", err)
	}
	return kfs
}

func findKF(kfs []KnownFinding, id string) *KnownFinding {
	for i := range kfs {
		if kfs[i].ID == id {
			return &kfs[i]
		}
	}
	return nil
}
