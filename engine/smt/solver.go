package smt

import (
	"bufio"
	"bytes"
	"context"
	"fmt"
	"io"
	"os"
	"os/exec"
	"path/filepath"
	"strconv"
	"strings"
	"sync"
	"time"
)

// Backend selects the primary incremental solver.
type Backend string

const (
	BackendCVC5    Backend = "cvc5"    // cvc5 --incremental (bit-blasting)
	BackendCVC5Int Backend = "int"     // cvc5 --incremental --solve-bv-as-int=sum
	BackendZ3      Backend = "z3"      // z3 -in, check-sat-using qfbv
	BackendZ3Plain Backend = "z3plain" // z3 -in, (check-sat)
)

type Stats struct {
	Queries   int
	Sat       int
	Unsat     int
	Unknown   int
	Escalated int
	Errors    int
	Time      time.Duration
}

// Solver drives one long-lived incremental solver process whose assertion
// stack mirrors the explorer's decision stack.
type Solver struct {
	Backend    Backend
	SoftMS     int // per-query limit for the incremental process
	HardS      int // limit for escalated one-shot portfolio
	ScratchDir string
	Stats      Stats
	Log        io.Writer

	cmd      *exec.Cmd
	in       io.WriteCloser
	lines    chan string
	level    int
	defined  []map[int]bool
	declared []map[string]bool
	asserted [][]*Term
	checkCmd string
	dead     bool
	nfile    int
}

func NewSolver(b Backend, softMS, hardS int, scratch string) *Solver {
	s := &Solver{Backend: b, SoftMS: softMS, HardS: hardS, ScratchDir: scratch}
	s.start()
	return s
}

func (s *Solver) start() {
	var cmd *exec.Cmd
	s.checkCmd = "(check-sat)"
	switch s.Backend {
	case BackendCVC5:
		cmd = exec.Command("cvc5", "--incremental", "--produce-models", "--lang=smt2", fmt.Sprintf("--tlimit-per=%d", s.SoftMS))
	case BackendCVC5Int:
		cmd = exec.Command("cvc5", "--incremental", "--produce-models", "--lang=smt2", "--solve-bv-as-int=sum", fmt.Sprintf("--tlimit-per=%d", s.SoftMS))
	case BackendZ3:
		cmd = exec.Command("z3", "-in")
		s.checkCmd = "(check-sat-using qfbv)"
	case BackendZ3Plain:
		cmd = exec.Command("z3", "-in")
	default:
		panic("unknown backend " + string(s.Backend))
	}
	in, _ := cmd.StdinPipe()
	out, _ := cmd.StdoutPipe()
	cmd.Stderr = nil
	if err := cmd.Start(); err != nil {
		panic(err)
	}
	s.cmd, s.in = cmd, in
	lines := make(chan string, 1024)
	s.lines = lines
	go func() {
		rd := bufio.NewReaderSize(out, 1<<16)
		for {
			line, err := rd.ReadString('\n')
			if line != "" {
				lines <- line
			}
			if err != nil {
				close(lines)
				return
			}
		}
	}()
	s.level = 0
	s.defined = []map[int]bool{{}}
	s.declared = []map[string]bool{{}}
	s.asserted = [][]*Term{nil}
	s.dead = false
	switch s.Backend {
	case BackendCVC5, BackendCVC5Int:
		s.send("(set-logic ALL)")
	default:
		s.send("(set-option :produce-models true)")
		s.send(fmt.Sprintf("(set-option :timeout %d)", s.SoftMS))
	}
}

func (s *Solver) Close() {
	if s.cmd != nil && s.cmd.Process != nil {
		s.in.Close()
		s.cmd.Process.Kill()
		s.cmd.Wait()
		s.cmd = nil
	}
}

func (s *Solver) send(l string) {
	if s.Log != nil {
		fmt.Fprintln(s.Log, l)
	}
	if s.dead {
		return
	}
	if _, err := io.WriteString(s.in, l+"\n"); err != nil {
		s.dead = true
	}
}

func (s *Solver) Level() int { return s.level }

func (s *Solver) isDefined(id int) bool {
	for _, m := range s.defined {
		if m[id] {
			return true
		}
	}
	return false
}
func (s *Solver) isDeclared(n string) bool {
	for _, m := range s.declared {
		if m[n] {
			return true
		}
	}
	return false
}

func (s *Solver) define(t *Term) {
	switch t.Op {
	case "const", "true", "false":
		return
	case "var":
		if !s.isDeclared(t.Name) {
			s.declared[len(s.declared)-1][t.Name] = true
			s.send(fmt.Sprintf("(declare-const %s %s)", t.Name, SortName(t.W)))
		}
		return
	}
	if s.isDefined(t.ID) {
		return
	}
	// iterative post-order to avoid deep recursion on long chains
	type fr struct {
		t *Term
		i int
	}
	st := []fr{{t, 0}}
	for len(st) > 0 {
		top := &st[len(st)-1]
		if top.i < len(top.t.Args) {
			a := top.t.Args[top.i]
			top.i++
			switch a.Op {
			case "const", "true", "false":
			case "var":
				s.define(a)
			default:
				if !s.isDefined(a.ID) {
					st = append(st, fr{a, 0})
				}
			}
			continue
		}
		x := top.t
		st = st[:len(st)-1]
		if s.isDefined(x.ID) {
			continue
		}
		if x.Op == "select" && !s.isDeclared(x.Name) {
			s.declared[len(s.declared)-1][x.Name] = true
			s.send(fmt.Sprintf("(declare-const %s (Array (_ BitVec 64) (_ BitVec 8)))", x.Name))
		}
		s.send(fmt.Sprintf("(define-fun t%d () %s %s)", x.ID, SortName(x.W), x.Def()))
		s.defined[len(s.defined)-1][x.ID] = true
	}
}

func (s *Solver) Push() {
	s.send("(push 1)")
	s.level++
	s.defined = append(s.defined, map[int]bool{})
	s.declared = append(s.declared, map[string]bool{})
	s.asserted = append(s.asserted, nil)
}

func (s *Solver) PopTo(level int) {
	for s.level > level {
		s.send("(pop 1)")
		s.level--
		s.defined = s.defined[:len(s.defined)-1]
		s.declared = s.declared[:len(s.declared)-1]
		s.asserted = s.asserted[:len(s.asserted)-1]
	}
}

func (s *Solver) Assert(t *Term) {
	if t.IsTrue() {
		return
	}
	s.asserted[len(s.asserted)-1] = append(s.asserted[len(s.asserted)-1], t)
	s.define(t)
	s.send("(assert " + t.Ref() + ")")
}

// rawLine reads one raw output line, killing the solver if it does not answer in time.
func (s *Solver) rawLine() (string, bool) {
	if s.dead {
		return "", false
	}
	limit := time.Duration(s.SoftMS)*time.Millisecond*2 + 3*time.Second
	select {
	case line, ok := <-s.lines:
		if !ok {
			s.dead = true
			return "", false
		}
		return line, true
	case <-time.After(limit):
		// the solver ignored its own time limit
		s.Stats.Errors++
		s.dead = true
		if s.cmd != nil && s.cmd.Process != nil {
			s.cmd.Process.Kill()
		}
		return "", false
	}
}

func (s *Solver) readLine() (string, bool) {
	for {
		line, ok := s.rawLine()
		if !ok {
			return "", false
		}
		line = strings.TrimSpace(line)
		if line == "" {
			continue
		}
		return line, true
	}
}

// restart rebuilds the solver process with the current assertion stack.
func (s *Solver) restart() {
	old := s.asserted
	s.Close()
	s.start()
	for i, lv := range old {
		if i > 0 {
			s.Push()
		}
		for _, t := range lv {
			s.Assert(t)
		}
	}
}

// rawCheck runs the check command on the incremental process.
func (s *Solver) rawCheck() string {
	if s.dead {
		s.restart()
	}
	s.send(s.checkCmd)
	for {
		line, ok := s.readLine()
		if !ok {
			return "unknown"
		}
		switch line {
		case "sat", "unsat", "unknown", "timeout":
			if line == "timeout" {
				return "unknown"
			}
			return line
		}
		if strings.HasPrefix(line, "(error") {
			s.Stats.Errors++
			fmt.Fprintln(os.Stderr, "solver error:", line)
			return "unknown"
		}
		// cvc5 prints e.g. "cvc5 interrupted by timeout." on stdout/stderr; ignore other lines
	}
}

// Check decides satisfiability of the current stack plus extra (may be nil).
// If wantModel and the answer is sat, a model over vars (and selects) is returned.
func (s *Solver) Check(extra *Term, wantModel bool, vars []*Term, selects []*Term) (string, *Model) {
	t0 := time.Now()
	defer func() { s.Stats.Time += time.Since(t0) }()
	s.Stats.Queries++
	if extra != nil {
		if extra.IsFalse() {
			s.Stats.Unsat++
			return "unsat", nil
		}
		s.Push()
		s.Assert(extra)
		defer s.PopTo(s.level - 1)
	}
	r := s.rawCheck()
	var m *Model
	if r == "sat" && wantModel {
		m = s.getModel(vars, selects)
		if m == nil {
			r = "unknown"
		}
	}
	if r == "unknown" {
		s.Stats.Escalated++
		r, m = s.escalate(wantModel, vars, selects)
	}
	switch r {
	case "sat":
		s.Stats.Sat++
	case "unsat":
		s.Stats.Unsat++
	default:
		s.Stats.Unknown++
	}
	return r, m
}

func parseVal(val string) (uint64, bool) {
	val = strings.TrimSpace(val)
	switch {
	case strings.HasPrefix(val, "#b"):
		u, err := strconv.ParseUint(val[2:], 2, 64)
		return u, err == nil
	case strings.HasPrefix(val, "#x"):
		u, err := strconv.ParseUint(val[2:], 16, 64)
		return u, err == nil
	case strings.HasPrefix(val, "(_ bv"):
		f := strings.Fields(val[5:])
		u, err := strconv.ParseUint(f[0], 10, 64)
		return u, err == nil
	case val == "true":
		return 1, true
	case val == "false":
		return 0, true
	}
	return 0, false
}

// parseGetValue parses "((e1 v1) (e2 v2) ...)" returning values in order.
func parseGetValue(resp string, n int) ([]uint64, bool) {
	// strip outer parens
	resp = strings.TrimSpace(resp)
	if len(resp) < 2 || resp[0] != '(' {
		return nil, false
	}
	resp = resp[1 : len(resp)-1]
	var out []uint64
	depth := 0
	start := -1
	for i := 0; i < len(resp); i++ {
		switch resp[i] {
		case '(':
			if depth == 0 {
				start = i
			}
			depth++
		case ')':
			depth--
			if depth == 0 && start >= 0 {
				pair := resp[start+1 : i]
				// value is the last token or last parenthesised group
				var val string
				if pair[len(pair)-1] == ')' {
					d := 0
					j := len(pair) - 1
					for ; j >= 0; j-- {
						if pair[j] == ')' {
							d++
						} else if pair[j] == '(' {
							d--
							if d == 0 {
								break
							}
						}
					}
					val = pair[j:]
				} else {
					j := strings.LastIndexAny(pair, " \t\n")
					val = pair[j+1:]
				}
				v, ok := parseVal(val)
				if !ok {
					return nil, false
				}
				out = append(out, v)
				start = -1
			}
		}
	}
	return out, len(out) == n
}

func (s *Solver) readSexp() (string, bool) {
	var sb strings.Builder
	depth := 0
	started := false
	for {
		line, ok := s.rawLine()
		if !ok {
			return "", false
		}
		for _, ch := range line {
			if ch == '(' {
				depth++
				started = true
			} else if ch == ')' {
				depth--
			}
		}
		sb.WriteString(line)
		if started && depth <= 0 {
			return sb.String(), true
		}
	}
}

type modelReq struct {
	t    *Term // var or select
	kind int   // 0 var, 1 select value (const index), 2 select index, 3 select value (symbolic index)
}

func modelExprs(vars, selects []*Term, declared func(string) bool, defined func(int) bool) ([]string, []modelReq) {
	var exprs []string
	var reqs []modelReq
	for _, v := range vars {
		if declared(v.Name) {
			exprs = append(exprs, v.Name)
			reqs = append(reqs, modelReq{v, 0})
		}
	}
	for _, sel := range selects {
		if !declared(sel.Name) {
			continue
		}
		if sel.Args[0].IsConst() {
			exprs = append(exprs, fmt.Sprintf("(select %s %s)", sel.Name, sel.Args[0].Ref()))
			reqs = append(reqs, modelReq{sel, 1})
		} else if defined(sel.ID) {
			exprs = append(exprs, sel.Args[0].Ref(), sel.Ref())
			reqs = append(reqs, modelReq{sel, 2}, modelReq{sel, 3})
		}
	}
	return exprs, reqs
}

func fillModel(m *Model, reqs []modelReq, vals []uint64) {
	var lastIdx uint64
	for k, v := range vals {
		r := reqs[k]
		switch r.kind {
		case 0:
			m.Vars[r.t.Name] = v
		case 1:
			if m.Arrays[r.t.Name] == nil {
				m.Arrays[r.t.Name] = map[uint64]uint8{}
			}
			m.Arrays[r.t.Name][r.t.Args[0].Val] = uint8(v)
		case 2:
			lastIdx = v
		case 3:
			if m.Arrays[r.t.Name] == nil {
				m.Arrays[r.t.Name] = map[uint64]uint8{}
			}
			m.Arrays[r.t.Name][lastIdx] = uint8(v)
		}
	}
}

func (s *Solver) getModel(vars []*Term, selects []*Term) *Model {
	m := NewModel()
	exprs, reqs := modelExprs(vars, selects, s.isDeclared, s.isDefined)
	var all []uint64
	for i := 0; i < len(exprs); i += 200 {
		j := i + 200
		if j > len(exprs) {
			j = len(exprs)
		}
		s.send("(get-value (" + strings.Join(exprs[i:j], " ") + "))")
		resp, ok := s.readSexp()
		if !ok || strings.Contains(resp, "(error") {
			return nil
		}
		vals, ok := parseGetValue(resp, j-i)
		if !ok {
			return nil
		}
		all = append(all, vals...)
	}
	fillModel(m, reqs, all)
	return m
}

// Script renders the current stack (+extra) as a standalone SMT-LIB2 problem.
func (s *Solver) Script(extra *Term, wantModel bool, vars []*Term, selects []*Term, useQfbv bool) (string, []modelReq) {
	var roots []*Term
	for _, lv := range s.asserted {
		roots = append(roots, lv...)
	}
	if extra != nil {
		roots = append(roots, extra)
	}
	return RenderScript(roots, wantModel, vars, selects, useQfbv)
}

// RenderScript prints a standalone problem asserting all roots.
func RenderScript(roots []*Term, wantModel bool, vars []*Term, selects []*Term, useQfbv bool) (string, []modelReq) {
	var sb strings.Builder
	sb.WriteString("(set-option :produce-models true)\n(set-logic ALL)\n")
	declared := map[string]bool{}
	hasArr := false
	seen := map[int]bool{}
	Walk(roots, seen, func(t *Term) {
		switch t.Op {
		case "const", "true", "false":
		case "var":
			if !declared[t.Name] {
				declared[t.Name] = true
				fmt.Fprintf(&sb, "(declare-const %s %s)\n", t.Name, SortName(t.W))
			}
		default:
			if t.Op == "select" {
				hasArr = true
				if !declared[t.Name] {
					declared[t.Name] = true
					fmt.Fprintf(&sb, "(declare-const %s (Array (_ BitVec 64) (_ BitVec 8)))\n", t.Name)
				}
			}
			fmt.Fprintf(&sb, "(define-fun t%d () %s %s)\n", t.ID, SortName(t.W), t.Def())
		}
	})
	for _, r := range roots {
		fmt.Fprintf(&sb, "(assert %s)\n", r.Ref())
	}
	if useQfbv && !hasArr {
		sb.WriteString("(check-sat-using qfbv)\n")
	} else {
		sb.WriteString("(check-sat)\n")
	}
	var kinds []modelReq
	if wantModel {
		var exprs []string
		exprs, kinds = modelExprs(vars, selects, func(n string) bool { return declared[n] }, func(id int) bool { return seen[id] })
		for i := 0; i < len(exprs); i += 200 {
			j := i + 200
			if j > len(exprs) {
				j = len(exprs)
			}
			sb.WriteString("(get-value (" + strings.Join(exprs[i:j], " ") + "))\n")
		}
	}
	return sb.String(), kinds
}

type oneShot struct {
	name string
	args []string
	qfbv bool
}

// Portfolio is the list of one-shot configurations raced on escalation.
func portfolio(b Backend) []oneShot {
	if b == BackendCVC5Int {
		return []oneShot{
			{"cvc5-int", []string{"cvc5", "--lang=smt2", "--produce-models", "--solve-bv-as-int=sum"}, false},
			{"z3-new", []string{"z3-new"}, false},
			{"z3", []string{"z3"}, true},
		}
	}
	return []oneShot{
		{"z3-qfbv", []string{"z3"}, true},
		{"cvc5", []string{"cvc5", "--lang=smt2", "--produce-models"}, false},
		{"z3-new", []string{"z3-new"}, false},
		{"cvc5-eager", []string{"cvc5", "--lang=smt2", "--produce-models", "--bitblast=eager"}, false},
	}
}

func (s *Solver) escalate(wantModel bool, vars []*Term, selects []*Term) (string, *Model) {
	if s.HardS <= 0 {
		return "unknown", nil
	}
	var roots []*Term
	for _, lv := range s.asserted {
		roots = append(roots, lv...)
	}
	r, m, _ := RunPortfolio(roots, wantModel, vars, selects, s.Backend, s.HardS, s.ScratchDir, &s.nfile)
	return r, m
}

// RunPortfolio races one-shot solver processes on the conjunction of roots.
func RunPortfolio(roots []*Term, wantModel bool, vars, selects []*Term, b Backend, hardS int, scratch string, nfile *int) (string, *Model, string) {
	ctx, cancel := context.WithTimeout(context.Background(), time.Duration(hardS)*time.Second)
	defer cancel()
	type res struct {
		r    string
		m    *Model
		name string
	}
	cfgs := portfolio(b)
	ch := make(chan res, len(cfgs))
	var wg sync.WaitGroup
	for _, cfg := range cfgs {
		cfg := cfg
		script, kinds := RenderScript(roots, wantModel, vars, selects, cfg.qfbv)
		if cfg.name == "cvc5-eager" && strings.Contains(script, "(Array") {
			continue
		}
		wg.Add(1)
		go func() {
			defer wg.Done()
			*nfile++
			f := filepath.Join(scratch, fmt.Sprintf("esc-%d-%d-%s.smt2", os.Getpid(), time.Now().UnixNano(), cfg.name))
			if err := os.WriteFile(f, []byte(script), 0o644); err != nil {
				ch <- res{"unknown", nil, cfg.name}
				return
			}
			defer os.Remove(f)
			cmd := exec.CommandContext(ctx, cfg.args[0], append(cfg.args[1:], f)...)
			var out bytes.Buffer
			cmd.Stdout = &out
			cmd.Run()
			txt := out.String()
			if strings.Contains(txt, "(error") {
				// e.g. get-value after unsat prints an error: only tolerate that case
				first := strings.TrimSpace(strings.SplitN(txt, "\n", 2)[0])
				if first != "unsat" {
					ch <- res{"unknown", nil, cfg.name}
					return
				}
			}
			lines := strings.SplitN(txt, "\n", 2)
			first := strings.TrimSpace(lines[0])
			switch first {
			case "unsat":
				ch <- res{"unsat", nil, cfg.name}
			case "sat":
				if !wantModel {
					ch <- res{"sat", nil, cfg.name}
					return
				}
				m := NewModel()
				rest := ""
				if len(lines) > 1 {
					rest = lines[1]
				}
				// rest holds one or more get-value responses; concatenate their pairs
				var all []uint64
				ok := true
				depth, start := 0, -1
				for i := 0; i < len(rest); i++ {
					if rest[i] == '(' {
						if depth == 0 {
							start = i
						}
						depth++
					} else if rest[i] == ')' {
						depth--
						if depth == 0 && start >= 0 {
							vals, good := parseGetValue(rest[start:i+1], -1)
							if vals == nil && !good {
								ok = false
							}
							all = append(all, vals...)
							start = -1
						}
					}
				}
				if !ok || len(all) != len(kinds) {
					ch <- res{"unknown", nil, cfg.name}
					return
				}
				fillModel(m, kinds, all)
				ch <- res{"sat", m, cfg.name}
			default:
				ch <- res{"unknown", nil, cfg.name}
			}
		}()
	}
	go func() { wg.Wait(); close(ch) }()
	for r := range ch {
		if r.r == "sat" || r.r == "unsat" {
			cancel()
			return r.r, r.m, r.name
		}
	}
	return "unknown", nil, ""
}
