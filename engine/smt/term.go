// Package smt is a small hash-consed bit-vector term DAG with a local
// simplifier, an SMT-LIB2 printer and drivers for cvc5 / z3.
package smt

import (
	"fmt"
	"math/bits"
	"strings"
)

// Term is a Bool (W==0) or BV(W) term, 1 <= W <= 64.
type Term struct {
	Op   string
	W    int
	Args []*Term
	Val  uint64 // const value / extract hi<<8|lo / extension amount
	Name string // variable or array name
	ID   int

	kbDone     bool
	kz, ko     uint64 // known-zero / known-one bit masks
	hasArr     int8   // 0 unknown, 1 no, 2 yes
	mulDivSeen int8
}

type key struct {
	op         string
	w          int
	val        uint64
	name       string
	a0, a1, a2 int
}

// Ctx owns a term table. Not safe for concurrent use: one per worker.
type Ctx struct {
	tab  map[key]*Term
	List []*Term
	tt   *Term
	ff   *Term
}

func NewCtx() *Ctx {
	c := &Ctx{tab: map[key]*Term{}}
	c.tt = c.mk("true", 0, 0, "")
	c.ff = c.mk("false", 0, 0, "")
	return c
}

func (c *Ctx) mk(op string, w int, val uint64, name string, args ...*Term) *Term {
	k := key{op: op, w: w, val: val, name: name, a0: -1, a1: -1, a2: -1}
	switch len(args) {
	case 3:
		k.a2 = args[2].ID
		fallthrough
	case 2:
		k.a1 = args[1].ID
		fallthrough
	case 1:
		k.a0 = args[0].ID
	case 0:
	default:
		panic("smt: too many args")
	}
	if t, ok := c.tab[k]; ok {
		return t
	}
	t := &Term{Op: op, W: w, Args: args, Val: val, Name: name, ID: len(c.List)}
	c.tab[k] = t
	c.List = append(c.List, t)
	return t
}

func Mask(w int) uint64 {
	if w >= 64 {
		return ^uint64(0)
	}
	return (uint64(1) << uint(w)) - 1
}

func (c *Ctx) Const(w int, v uint64) *Term {
	if w <= 0 || w > 64 {
		panic(fmt.Sprintf("smt: const width %d", w))
	}
	return c.mk("const", w, v&Mask(w), "")
}
func (c *Ctx) Bool(b bool) *Term {
	if b {
		return c.tt
	}
	return c.ff
}
func (c *Ctx) True() *Term  { return c.tt }
func (c *Ctx) False() *Term { return c.ff }

// Var returns the variable with the given name (w==0 => Bool).
func (c *Ctx) Var(w int, name string) *Term { return c.mk("var", w, 0, name) }

func (t *Term) IsConst() bool { return t.Op == "const" || t.Op == "true" || t.Op == "false" }
func (t *Term) IsTrue() bool  { return t.Op == "true" }
func (t *Term) IsFalse() bool { return t.Op == "false" }

func SX(v uint64, w int) int64 {
	if w >= 64 {
		return int64(v)
	}
	if v&(1<<uint(w-1)) != 0 {
		return int64(v | ^Mask(w))
	}
	return int64(v)
}

func foldBin(op string, w int, x, y uint64) (uint64, bool) {
	switch op {
	case "bvadd":
		return x + y, true
	case "bvsub":
		return x - y, true
	case "bvmul":
		return x * y, true
	case "bvand":
		return x & y, true
	case "bvor":
		return x | y, true
	case "bvxor":
		return x ^ y, true
	case "bvshl":
		if y >= uint64(w) {
			return 0, true
		}
		return x << y, true
	case "bvlshr":
		if y >= uint64(w) {
			return 0, true
		}
		return x >> y, true
	case "bvashr":
		if y >= uint64(w) {
			y = uint64(w - 1)
		}
		return uint64(SX(x, w) >> y), true
	case "bvudiv":
		if y != 0 {
			return x / y, true
		}
		return Mask(w), true
	case "bvurem":
		if y != 0 {
			return x % y, true
		}
		return x, true
	case "bvsdiv":
		if y != 0 {
			a, b := SX(x, w), SX(y, w)
			if b == -1 {
				return uint64(-a), true
			}
			return uint64(a / b), true
		}
	case "bvsrem":
		if y != 0 {
			a, b := SX(x, w), SX(y, w)
			if b == -1 {
				return 0, true
			}
			return uint64(a % b), true
		}
	}
	return 0, false
}

func (c *Ctx) Bin(op string, a, b *Term) *Term {
	w := a.W
	if a.W != b.W {
		panic(fmt.Sprintf("smt: %s width mismatch %d vs %d", op, a.W, b.W))
	}
	if a.IsConst() && b.IsConst() {
		if v, ok := foldBin(op, w, a.Val, b.Val); ok {
			return c.Const(w, v)
		}
	}
	if op == "bvadd" && w > 0 && !(a.IsConst() && b.IsConst()) {
		// operands whose possibly-set bits are disjoint: the sum is the bitwise or (no carries)
		za, _ := c.Known(a)
		zb, _ := c.Known(b)
		if (^za&Mask(w))&(^zb&Mask(w)) == 0 && za != 0 && zb != 0 {
			return c.Bin("bvor", a, b)
		}
	}
	if op == "bvand" && b.IsConst() && a.Op == "bvor" {
		// (x | y) & c = (x & c) | (y & c)
		return c.Bin("bvor", c.Bin("bvand", a.Args[0], b), c.Bin("bvand", a.Args[1], b))
	}
	if op == "bvand" && a.IsConst() && b.Op == "bvor" {
		return c.Bin("bvor", c.Bin("bvand", b.Args[0], a), c.Bin("bvand", b.Args[1], a))
	}
	switch op {
	case "bvadd":
		if a.IsConst() && !b.IsConst() {
			a, b = b, a
		}
		if b.IsConst() && a.Op == "bvadd" && a.Args[1].IsConst() {
			return c.Bin("bvadd", a.Args[0], c.Const(w, a.Args[1].Val+b.Val))
		}
		if !b.IsConst() && a.Op == "bvadd" && a.Args[1].IsConst() {
			// (x + c) + y => (x + y) + c
			return c.Bin("bvadd", c.Bin("bvadd", a.Args[0], b), a.Args[1])
		}
		if !a.IsConst() && b.Op == "bvadd" && b.Args[1].IsConst() {
			return c.Bin("bvadd", c.Bin("bvadd", a, b.Args[0]), b.Args[1])
		}
	case "bvsub":
		if b.IsConst() {
			return c.Bin("bvadd", a, c.Const(w, -b.Val))
		}
		if a == b {
			return c.Const(w, 0)
		}
		// (x + c) - x => c ; (x + c1) - (x + c2) => c1-c2
		ax, ac := splitAdd(a)
		bx, bc := splitAdd(b)
		if ax == bx && ax != nil {
			return c.Const(w, ac-bc)
		}
	case "bvand", "bvor":
		if a.IsConst() && !b.IsConst() {
			a, b = b, a
		}
		if a == b {
			return a
		}
	case "bvxor":
		if a.IsConst() && !b.IsConst() {
			a, b = b, a
		}
		if a == b {
			return c.Const(w, 0)
		}
	case "bvmul":
		if a.IsConst() && !b.IsConst() {
			a, b = b, a
		}
	}
	switch op {
	case "bvadd", "bvor", "bvxor":
		if b.IsConst() && b.Val == 0 {
			return a
		}
		if op == "bvor" && b.IsConst() && b.Val == Mask(w) {
			return b
		}
	case "bvshl", "bvlshr", "bvashr":
		if b.IsConst() && b.Val == 0 {
			return a
		}
		if op != "bvashr" && b.IsConst() && a.Op == "bvor" {
			// shifts distribute over or
			return c.Bin("bvor", c.Bin(op, a.Args[0], b), c.Bin(op, a.Args[1], b))
		}
		if op == "bvlshr" && b.IsConst() && a.Op == "bvshl" && a.Args[1].IsConst() {
			// (x << s) >> k: when the top s bits of x are known zero this is x >> (k-s) or x << (s-k)
			s0, k := a.Args[1].Val, b.Val
			zx, _ := c.Known(a.Args[0])
			if s0 < uint64(w) && leadingKnownZeros(zx, w) >= int(s0) {
				if k >= s0 {
					return c.Bin("bvlshr", a.Args[0], c.Const(w, k-s0))
				}
				return c.Bin("bvshl", a.Args[0], c.Const(w, s0-k))
			}
		}
		if op == "bvshl" && b.IsConst() && a.Op == "bvshl" && a.Args[1].IsConst() && a.Args[1].Val+b.Val < uint64(w) {
			return c.Bin("bvshl", a.Args[0], c.Const(w, a.Args[1].Val+b.Val))
		}
		if a.IsConst() && a.Val == 0 {
			return a
		}
		if b.IsConst() && b.Val >= uint64(w) && op != "bvashr" {
			return c.Const(w, 0)
		}
		if op == "bvlshr" && b.IsConst() {
			// shifting out all possibly-set bits
			z, _ := c.Known(a)
			if (^z&Mask(w))>>b.Val == 0 {
				return c.Const(w, 0)
			}
		}
	case "bvand":
		if b.IsConst() && b.Val == 0 {
			return b
		}
		if b.IsConst() && b.Val == Mask(w) {
			return a
		}
		if b.IsConst() {
			z, _ := c.Known(a)
			if (^z&Mask(w))&^b.Val == 0 {
				return a // mask keeps every bit that can be set
			}
			if (^z&Mask(w))&b.Val == 0 {
				return c.Const(w, 0)
			}
		}
	case "bvmul":
		if b.IsConst() && b.Val == 1 {
			return a
		}
		if b.IsConst() && b.Val == 0 {
			return b
		}
		if b.IsConst() && b.Val&(b.Val-1) == 0 {
			return c.Bin("bvshl", a, c.Const(w, uint64(bits.TrailingZeros64(b.Val))))
		}
	case "bvudiv":
		if b.IsConst() && b.Val == 1 {
			return a
		}
		if b.IsConst() && b.Val != 0 && b.Val&(b.Val-1) == 0 {
			return c.Bin("bvlshr", a, c.Const(w, uint64(bits.TrailingZeros64(b.Val))))
		}
	case "bvurem":
		if b.IsConst() && b.Val != 0 && b.Val&(b.Val-1) == 0 {
			return c.Bin("bvand", a, c.Const(w, b.Val-1))
		}
	}
	return c.mk(op, w, 0, "", a, b)
}

func splitAdd(t *Term) (*Term, uint64) {
	if t.Op == "bvadd" && t.Args[1].IsConst() {
		return t.Args[0], t.Args[1].Val
	}
	if t.IsConst() {
		return nil, t.Val
	}
	return t, 0
}

func (c *Ctx) Cmp(op string, a, b *Term) *Term {
	if a.W != b.W {
		panic(fmt.Sprintf("smt: %s width mismatch %d vs %d", op, a.W, b.W))
	}
	if a.IsConst() && b.IsConst() {
		x, y := a.Val, b.Val
		if a.W == 0 {
			x, y = 0, 0
			if a.IsTrue() {
				x = 1
			}
			if b.IsTrue() {
				y = 1
			}
		}
		switch op {
		case "=":
			return c.Bool(x == y)
		case "bvult":
			return c.Bool(x < y)
		case "bvule":
			return c.Bool(x <= y)
		case "bvslt":
			return c.Bool(SX(x, a.W) < SX(y, a.W))
		case "bvsle":
			return c.Bool(SX(x, a.W) <= SX(y, a.W))
		}
	}
	if a == b {
		switch op {
		case "=", "bvule", "bvsle":
			return c.tt
		default:
			return c.ff
		}
	}
	// canonical form: <= is expressed as the negation of the swapped <, so that syntactically
	// complementary comparisons are recognised as such
	if op == "bvule" {
		return c.Not(c.Cmp("bvult", b, a))
	}
	if op == "bvsle" {
		return c.Not(c.Cmp("bvslt", b, a))
	}
	if op == "=" {
		if a.W == 0 {
			if a.IsTrue() {
				return b
			}
			if b.IsTrue() {
				return a
			}
			if a.IsFalse() {
				return c.Not(b)
			}
			if b.IsFalse() {
				return c.Not(a)
			}
		} else {
			if a.IsConst() {
				a, b = b, a
			}
			if b.IsConst() {
				if r := c.eqConst(a, b.Val); r != nil {
					return r
				}
			} else {
				// (x + c1) == (x + c2)
				ax, ac := splitAdd(a)
				bx, bc := splitAdd(b)
				if ax == bx && ax != nil && ac != bc {
					return c.ff
				}
			}
			if a.ID > b.ID && !b.IsConst() {
				a, b = b, a
			}
		}
	} else if a.W > 0 {
		// range-based decisions
		za, oa := c.Known(a)
		zb, ob := c.Known(b)
		maxA, minA := ^za&Mask(a.W), oa
		maxB, minB := ^zb&Mask(b.W), ob
		switch op {
		case "bvult":
			if maxA < minB {
				return c.tt
			}
			if minA >= maxB {
				return c.ff
			}
		case "bvule":
			if maxA <= minB {
				return c.tt
			}
			if minA > maxB {
				return c.ff
			}
		}
		if op == "bvult" && b.IsConst() && b.Val == 0 {
			return c.ff
		}
		if op == "bvule" && a.IsConst() && a.Val == 0 {
			return c.tt
		}
		if op == "bvult" && b.IsConst() && b.Val == 1 {
			return c.Cmp("=", a, c.Const(a.W, 0))
		}
	}
	return c.mk(op, 0, 0, "", a, b)
}

// eqConst simplifies a == k for non-constant a; nil if no rule applies.
func (c *Ctx) eqConst(a *Term, k uint64) *Term {
	z, o := c.Known(a)
	if k&z != 0 || k&o != o {
		return c.ff
	}
	switch a.Op {
	case "bvadd":
		if a.Args[1].IsConst() {
			return c.Cmp("=", a.Args[0], c.Const(a.W, k-a.Args[1].Val))
		}
	case "zext":
		x := a.Args[0]
		if k > Mask(x.W) {
			return c.ff
		}
		return c.Cmp("=", x, c.Const(x.W, k))
	case "ite":
		t, e := a.Args[1], a.Args[2]
		if t.IsConst() && e.IsConst() {
			switch {
			case t.Val == k && e.Val == k:
				return c.tt
			case t.Val == k:
				return a.Args[0]
			case e.Val == k:
				return c.Not(a.Args[0])
			default:
				return c.ff
			}
		}
		if t.IsConst() {
			if t.Val == k {
				return c.Or(a.Args[0], c.Cmp("=", e, c.Const(a.W, k)))
			}
			return c.And(c.Not(a.Args[0]), c.Cmp("=", e, c.Const(a.W, k)))
		}
		if e.IsConst() {
			if e.Val == k {
				return c.Or(c.Not(a.Args[0]), c.Cmp("=", t, c.Const(a.W, k)))
			}
			return c.And(a.Args[0], c.Cmp("=", t, c.Const(a.W, k)))
		}
	case "concat":
		hi, lo := a.Args[0], a.Args[1]
		return c.And(c.Cmp("=", hi, c.Const(hi.W, k>>uint(lo.W))), c.Cmp("=", lo, c.Const(lo.W, k)))
	}
	return nil
}

func (c *Ctx) Eq(a, b *Term) *Term { return c.Cmp("=", a, b) }
func (c *Ctx) Not(a *Term) *Term {
	if a.IsTrue() {
		return c.ff
	}
	if a.IsFalse() {
		return c.tt
	}
	if a.Op == "not" {
		return a.Args[0]
	}
	return c.mk("not", 0, 0, "", a)
}
func (c *Ctx) And(a, b *Term) *Term {
	if a.IsFalse() || b.IsFalse() {
		return c.ff
	}
	if a.IsTrue() {
		return b
	}
	if b.IsTrue() {
		return a
	}
	if a == b {
		return a
	}
	if (a.Op == "not" && a.Args[0] == b) || (b.Op == "not" && b.Args[0] == a) {
		return c.ff
	}
	return c.mk("and", 0, 0, "", a, b)
}
func (c *Ctx) Or(a, b *Term) *Term {
	if a.IsTrue() || b.IsTrue() {
		return c.tt
	}
	if a.IsFalse() {
		return b
	}
	if b.IsFalse() {
		return a
	}
	if a == b {
		return a
	}
	if (a.Op == "not" && a.Args[0] == b) || (b.Op == "not" && b.Args[0] == a) {
		return c.tt
	}
	return c.mk("or", 0, 0, "", a, b)
}
func (c *Ctx) Implies(a, b *Term) *Term { return c.Or(c.Not(a), b) }
func (c *Ctx) AndN(ts ...*Term) *Term {
	r := c.tt
	for _, t := range ts {
		r = c.And(r, t)
	}
	return r
}
func (c *Ctx) Ite(cond, a, b *Term) *Term {
	if cond.IsTrue() {
		return a
	}
	if cond.IsFalse() {
		return b
	}
	if a == b {
		return a
	}
	if a.W != b.W {
		panic(fmt.Sprintf("smt: ite width mismatch %d vs %d", a.W, b.W))
	}
	if a.W == 0 {
		if a.IsTrue() && b.IsFalse() {
			return cond
		}
		if a.IsFalse() && b.IsTrue() {
			return c.Not(cond)
		}
		if a.IsTrue() {
			return c.Or(cond, b)
		}
		if a.IsFalse() {
			return c.And(c.Not(cond), b)
		}
		if b.IsTrue() {
			return c.Or(c.Not(cond), a)
		}
		if b.IsFalse() {
			return c.And(cond, a)
		}
	}
	if cond.Op == "not" {
		return c.Ite(cond.Args[0], b, a)
	}
	// ite(c, x, ite(c, y, z)) => ite(c, x, z)
	if b.Op == "ite" && b.Args[0] == cond {
		return c.Ite(cond, a, b.Args[2])
	}
	if a.Op == "ite" && a.Args[0] == cond {
		return c.Ite(cond, a.Args[1], b)
	}
	return c.mk("ite", a.W, 0, "", cond, a, b)
}
func (c *Ctx) BvNot(a *Term) *Term {
	if a.IsConst() {
		return c.Const(a.W, ^a.Val)
	}
	if a.Op == "bvnot" {
		return a.Args[0]
	}
	return c.mk("bvnot", a.W, 0, "", a)
}
func (c *Ctx) BvNeg(a *Term) *Term {
	if a.IsConst() {
		return c.Const(a.W, -a.Val)
	}
	return c.mk("bvneg", a.W, 0, "", a)
}

func (c *Ctx) Extract(a *Term, hi, lo int) *Term {
	if hi < lo || hi >= a.W || lo < 0 {
		panic(fmt.Sprintf("smt: extract [%d:%d] of width %d", hi, lo, a.W))
	}
	if hi == a.W-1 && lo == 0 {
		return a
	}
	nw := hi - lo + 1
	switch a.Op {
	case "const":
		return c.Const(nw, a.Val>>uint(lo))
	case "zext":
		xw := a.Args[0].W
		if hi < xw {
			return c.Extract(a.Args[0], hi, lo)
		}
		if lo >= xw {
			return c.Const(nw, 0)
		}
		return c.ZExt(c.Extract(a.Args[0], xw-1, lo), nw)
	case "sext":
		xw := a.Args[0].W
		if hi < xw {
			return c.Extract(a.Args[0], hi, lo)
		}
	case "extract":
		l2 := int(a.Val & 0xff)
		return c.Extract(a.Args[0], hi+l2, lo+l2)
	case "concat":
		lw := a.Args[1].W
		if hi < lw {
			return c.Extract(a.Args[1], hi, lo)
		}
		if lo >= lw {
			return c.Extract(a.Args[0], hi-lw, lo-lw)
		}
		return c.Concat(c.Extract(a.Args[0], hi-lw, 0), c.Extract(a.Args[1], lw-1, lo))
	case "bvand", "bvor", "bvxor":
		return c.Bin(a.Op, c.Extract(a.Args[0], hi, lo), c.Extract(a.Args[1], hi, lo))
	case "bvnot":
		return c.BvNot(c.Extract(a.Args[0], hi, lo))
	case "ite":
		if a.Args[1].IsConst() || a.Args[2].IsConst() {
			return c.Ite(a.Args[0], c.Extract(a.Args[1], hi, lo), c.Extract(a.Args[2], hi, lo))
		}
	case "bvlshr":
		if a.Args[1].IsConst() {
			s := int(a.Args[1].Val)
			if lo+s >= a.W {
				return c.Const(nw, 0)
			}
			if hi+s < a.W {
				return c.Extract(a.Args[0], hi+s, lo+s)
			}
			return c.ZExt(c.Extract(a.Args[0], a.W-1, lo+s), nw)
		}
	case "bvshl":
		if a.Args[1].IsConst() {
			s := int(a.Args[1].Val)
			if hi < s {
				return c.Const(nw, 0)
			}
			if lo >= s {
				return c.Extract(a.Args[0], hi-s, lo-s)
			}
		}
	case "bvadd", "bvsub", "bvmul":
		if lo == 0 {
			return c.Bin(a.Op, c.Extract(a.Args[0], hi, 0), c.Extract(a.Args[1], hi, 0))
		}
	}
	return c.mk("extract", nw, uint64(hi)<<8|uint64(lo), "", a)
}

func (c *Ctx) Concat(hi, lo *Term) *Term {
	if hi.W+lo.W > 64 {
		panic("smt: concat wider than 64 bits")
	}
	if hi.IsConst() && lo.IsConst() {
		return c.Const(hi.W+lo.W, hi.Val<<uint(lo.W)|lo.Val)
	}
	if hi.Op == "extract" && lo.Op == "extract" && hi.Args[0] == lo.Args[0] {
		hl := int(hi.Val & 0xff)
		lh := int(lo.Val >> 8)
		if hl == lh+1 {
			return c.Extract(hi.Args[0], int(hi.Val>>8), int(lo.Val&0xff))
		}
	}
	// concat(extract(x, h, m+1), concat(extract(x, m, l), rest))
	if hi.Op == "extract" && lo.Op == "concat" && lo.Args[0].Op == "extract" && lo.Args[0].Args[0] == hi.Args[0] {
		hl := int(hi.Val & 0xff)
		lh := int(lo.Args[0].Val >> 8)
		if hl == lh+1 {
			return c.Concat(c.Extract(hi.Args[0], int(hi.Val>>8), int(lo.Args[0].Val&0xff)), lo.Args[1])
		}
	}
	if hi.IsConst() && hi.Val == 0 {
		return c.ZExt(lo, hi.W+lo.W)
	}
	return c.mk("concat", hi.W+lo.W, 0, "", hi, lo)
}

func (c *Ctx) ZExt(a *Term, w int) *Term {
	if w == a.W {
		return a
	}
	if w < a.W {
		panic("smt: zext to narrower width")
	}
	if a.IsConst() {
		return c.Const(w, a.Val)
	}
	if a.Op == "zext" {
		return c.ZExt(a.Args[0], w)
	}
	if a.Op == "ite" && a.Args[1].IsConst() && a.Args[2].IsConst() {
		return c.Ite(a.Args[0], c.Const(w, a.Args[1].Val), c.Const(w, a.Args[2].Val))
	}
	return c.mk("zext", w, uint64(w-a.W), "", a)
}
func (c *Ctx) SExt(a *Term, w int) *Term {
	if w == a.W {
		return a
	}
	if a.IsConst() {
		return c.Const(w, uint64(SX(a.Val, a.W)))
	}
	z, _ := c.Known(a)
	if z&(1<<uint(a.W-1)) != 0 {
		return c.ZExt(a, w)
	}
	return c.mk("sext", w, uint64(w-a.W), "", a)
}
func (c *Ctx) Trunc(a *Term, w int) *Term { return c.Extract(a, w-1, 0) }

// Select is a read of byte array `arr` (an uninterpreted initial memory) at a 64-bit index.
func (c *Ctx) Select(arr string, idx *Term) *Term { return c.mk("select", 8, 0, arr, idx) }

// BoolToBV returns ite(b, 1, 0) of width w.
func (c *Ctx) BoolToBV(b *Term, w int) *Term { return c.Ite(b, c.Const(w, 1), c.Const(w, 0)) }

// Known returns the masks of bits known to be zero / one.
func (c *Ctx) Known(t *Term) (zeros, ones uint64) {
	if t.W == 0 {
		return 0, 0
	}
	if t.kbDone {
		return t.kz, t.ko
	}
	m := Mask(t.W)
	var z, o uint64
	switch t.Op {
	case "const":
		z, o = ^t.Val&m, t.Val
	case "zext":
		az, ao := c.Known(t.Args[0])
		z, o = az|(m&^Mask(t.Args[0].W)), ao
	case "sext":
		az, ao := c.Known(t.Args[0])
		aw := t.Args[0].W
		z, o = az, ao
		if az&(1<<uint(aw-1)) != 0 {
			z |= m &^ Mask(aw)
		} else if ao&(1<<uint(aw-1)) != 0 {
			o |= m &^ Mask(aw)
		}
	case "bvand":
		az, ao := c.Known(t.Args[0])
		bz, bo := c.Known(t.Args[1])
		z, o = az|bz, ao&bo
	case "bvor":
		az, ao := c.Known(t.Args[0])
		bz, bo := c.Known(t.Args[1])
		z, o = az&bz, ao|bo
	case "bvxor":
		az, ao := c.Known(t.Args[0])
		bz, bo := c.Known(t.Args[1])
		z = (az & bz) | (ao & bo)
		o = (az & bo) | (ao & bz)
	case "bvnot":
		az, ao := c.Known(t.Args[0])
		z, o = ao, az
	case "bvshl":
		if t.Args[1].IsConst() && t.Args[1].Val < uint64(t.W) {
			az, ao := c.Known(t.Args[0])
			s := uint(t.Args[1].Val)
			z, o = (az<<s)|Mask(int(s)), ao<<s
		} else {
			az, _ := c.Known(t.Args[0])
			tz := bits.TrailingZeros64(^az)
			if tz > t.W {
				tz = t.W
			}
			z = Mask(tz)
			if tz == 0 {
				z = 0
			}
		}
	case "bvlshr":
		az, ao := c.Known(t.Args[0])
		if t.Args[1].IsConst() && t.Args[1].Val < uint64(t.W) {
			s := uint(t.Args[1].Val)
			z, o = (az>>s)|(m&^(m>>s)), ao>>s
		} else {
			// leading zeros are preserved
			lz := leadingKnownZeros(az, t.W)
			z = m &^ Mask(t.W-lz)
		}
	case "extract":
		az, ao := c.Known(t.Args[0])
		lo := uint(t.Val & 0xff)
		z, o = az>>lo, ao>>lo
	case "concat":
		az, ao := c.Known(t.Args[0])
		bz, bo := c.Known(t.Args[1])
		lw := uint(t.Args[1].W)
		z, o = (az<<lw)|(bz&Mask(int(lw))), (ao<<lw)|(bo&Mask(int(lw)))
	case "ite":
		az, ao := c.Known(t.Args[1])
		bz, bo := c.Known(t.Args[2])
		z, o = az&bz, ao&bo
	case "bvadd":
		az, _ := c.Known(t.Args[0])
		bz, _ := c.Known(t.Args[1])
		ta, tb := bits.TrailingZeros64(^az), bits.TrailingZeros64(^bz)
		tz := ta
		if tb < tz {
			tz = tb
		}
		if tz > t.W {
			tz = t.W
		}
		if tz > 0 {
			z = Mask(tz)
		}
		// when one operand's trailing zeros cover all of the other's possibly-set low bits the low bits pass through
		maxA, maxB := ^az&m, ^bz&m
		if s := maxA + maxB; s >= maxA && s <= m {
			lz := bits.LeadingZeros64(s) - (64 - t.W)
			if lz > 0 {
				z |= m &^ Mask(t.W-lz)
			}
		}
	case "bvmul":
		az, _ := c.Known(t.Args[0])
		bz, _ := c.Known(t.Args[1])
		tz := bits.TrailingZeros64(^az) + bits.TrailingZeros64(^bz)
		if tz > t.W {
			tz = t.W
		}
		if tz > 0 {
			z = Mask(tz)
		}
		maxA, maxB := ^az&m, ^bz&m
		hi, lo := bits.Mul64(maxA, maxB)
		if hi == 0 && lo <= m {
			lz := bits.LeadingZeros64(lo) - (64 - t.W)
			if lz > 0 {
				z |= m &^ Mask(t.W-lz)
			}
		}
	case "bvudiv":
		az, _ := c.Known(t.Args[0])
		lz := leadingKnownZeros(az, t.W)
		z = m &^ Mask(t.W-lz)
	case "bvurem":
		az, _ := c.Known(t.Args[0])
		bz, _ := c.Known(t.Args[1])
		la, lb := leadingKnownZeros(az, t.W), leadingKnownZeros(bz, t.W)
		if lb > la {
			la = lb
		}
		z = m &^ Mask(t.W-la)
	}
	z &= m
	o &= m
	t.kbDone, t.kz, t.ko = true, z, o
	return z, o
}

func leadingKnownZeros(z uint64, w int) int {
	n := 0
	for i := w - 1; i >= 0; i-- {
		if z&(1<<uint(i)) == 0 {
			break
		}
		n++
	}
	return n
}

// MayEq reports whether t == k is not excluded by known bits.
func (c *Ctx) MayEq(t *Term, k uint64) bool {
	z, o := c.Known(t)
	return k&z == 0 && k&o == o && k <= Mask(t.W)
}

// UMax is an upper bound on the unsigned value of t.
func (c *Ctx) UMax(t *Term) uint64 {
	z, _ := c.Known(t)
	return ^z & Mask(t.W)
}

func SortName(w int) string {
	if w == 0 {
		return "Bool"
	}
	return fmt.Sprintf("(_ BitVec %d)", w)
}

func (t *Term) Ref() string {
	switch t.Op {
	case "const":
		return fmt.Sprintf("(_ bv%d %d)", t.Val, t.W)
	case "true", "false":
		return t.Op
	case "var":
		return t.Name
	}
	return fmt.Sprintf("t%d", t.ID)
}

func (t *Term) Def() string {
	as := make([]string, len(t.Args))
	for i, a := range t.Args {
		as[i] = a.Ref()
	}
	switch t.Op {
	case "select":
		return fmt.Sprintf("(select %s %s)", t.Name, as[0])
	case "extract":
		return fmt.Sprintf("((_ extract %d %d) %s)", t.Val>>8, t.Val&0xff, as[0])
	case "zext":
		return fmt.Sprintf("((_ zero_extend %d) %s)", t.Val, as[0])
	case "sext":
		return fmt.Sprintf("((_ sign_extend %d) %s)", t.Val, as[0])
	}
	return "(" + t.Op + " " + strings.Join(as, " ") + ")"
}

// Model maps variable names to values and array names to sparse contents.
type Model struct {
	Vars   map[string]uint64
	Arrays map[string]map[uint64]uint8
	ArrDef map[string]uint8
	Miss   bool // set by Eval when a variable or array cell was not part of the model
}

func NewModel() *Model {
	return &Model{Vars: map[string]uint64{}, Arrays: map[string]map[uint64]uint8{}, ArrDef: map[string]uint8{}}
}

// Eval evaluates t under m. Unassigned variables evaluate to 0.
func Eval(t *Term, m *Model, memo map[int]uint64) uint64 {
	if v, ok := memo[t.ID]; ok {
		return v
	}
	var r uint64
	a := func(i int) uint64 { return Eval(t.Args[i], m, memo) }
	b2u := func(b bool) uint64 {
		if b {
			return 1
		}
		return 0
	}
	switch t.Op {
	case "const":
		r = t.Val
	case "true":
		r = 1
	case "false":
		r = 0
	case "var":
		v, ok := m.Vars[t.Name]
		if !ok {
			m.Miss = true
		}
		r = v
		if t.W == 0 {
			r &= 1
		}
	case "select":
		idx := a(0)
		if arr, ok := m.Arrays[t.Name]; ok {
			if v, ok := arr[idx]; ok {
				r = uint64(v)
				break
			}
		}
		m.Miss = true
		r = uint64(m.ArrDef[t.Name])
	case "=":
		r = b2u(a(0) == a(1))
	case "bvult":
		r = b2u(a(0) < a(1))
	case "bvule":
		r = b2u(a(0) <= a(1))
	case "bvslt":
		r = b2u(SX(a(0), t.Args[0].W) < SX(a(1), t.Args[0].W))
	case "bvsle":
		r = b2u(SX(a(0), t.Args[0].W) <= SX(a(1), t.Args[0].W))
	case "not":
		r = 1 - a(0)
	case "and":
		r = a(0) & a(1)
	case "or":
		r = a(0) | a(1)
	case "ite":
		if a(0) == 1 {
			r = a(1)
		} else {
			r = a(2)
		}
	case "extract":
		r = a(0) >> (t.Val & 0xff)
	case "concat":
		r = a(0)<<uint(t.Args[1].W) | a(1)
	case "zext":
		r = a(0)
	case "sext":
		r = uint64(SX(a(0), t.Args[0].W))
	case "bvnot":
		r = ^a(0)
	case "bvneg":
		r = -a(0)
	default:
		v, ok := foldBin(t.Op, t.W, a(0), a(1))
		if !ok {
			// division by zero per SMT-LIB
			switch t.Op {
			case "bvsdiv":
				if SX(a(0), t.W) < 0 {
					v = 1
				} else {
					v = Mask(t.W)
				}
			case "bvsrem":
				v = a(0)
			default:
				panic("smt: eval " + t.Op)
			}
		}
		r = v
	}
	if t.W > 0 {
		r &= Mask(t.W)
	}
	memo[t.ID] = r
	return r
}

// Walk visits every node reachable from roots exactly once (post-order).
func Walk(roots []*Term, seen map[int]bool, f func(*Term)) {
	var rec func(t *Term)
	rec = func(t *Term) {
		if seen[t.ID] {
			return
		}
		seen[t.ID] = true
		for _, a := range t.Args {
			rec(a)
		}
		f(t)
	}
	for _, r := range roots {
		rec(r)
	}
}

// Render prints a term to the given depth (debugging aid).
func Render(t *Term, depth int) string {
	switch t.Op {
	case "const":
		return fmt.Sprintf("%#x", t.Val)
	case "var":
		return t.Name
	case "true", "false":
		return t.Op
	}
	if depth == 0 {
		return "..."
	}
	var as []string
	for _, a := range t.Args {
		as = append(as, Render(a, depth-1))
	}
	op := t.Op
	if op == "extract" {
		op = fmt.Sprintf("extract[%d:%d]", t.Val>>8, t.Val&0xff)
	}
	return "(" + op + " " + strings.Join(as, " ") + ")"
}
