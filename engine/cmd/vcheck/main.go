package main

import (
	"flag"
	"fmt"
	"os"

	"verif/engine/asmbmc"
	"verif/engine/gosym"
)

func main() {
	if len(os.Args) < 2 {
		fmt.Fprintln(os.Stderr, "usage: vcheck <Cxx> [--tier quick|thorough] [--only harness] | vcheck selftest | vcheck --replay file")
		os.Exit(2)
	}
	prop := os.Args[1]
	if prop == "--replay" {
		if len(os.Args) < 3 {
			fmt.Fprintln(os.Stderr, "usage: vcheck --replay <file>")
			os.Exit(2)
		}
		os.Exit(gosym.ReplayFile("/verif", os.Args[2]))
	}
	fs := flag.NewFlagSet("vcheck", flag.ExitOnError)
	tier := fs.String("tier", "quick", "quick|thorough")
	only := fs.String("only", "", "run only harnesses whose name contains this")
	verifDir := fs.String("verif", "/verif", "verif root")
	workers := fs.Int("j", 0, "workers (0 = NumCPU)")
	verbose := fs.Bool("v", false, "verbose")
	noReplay := fs.Bool("no-replay", false, "skip native replay of violations")
	fs.Parse(os.Args[2:])
	if env := os.Getenv("VERIF_TIER"); env != "" && !flagSet(fs, "tier") {
		*tier = env
	}
	if prop == "C08" {
		seed := 0
		fmt.Sscanf(os.Getenv("VERIF_SEED"), "%d", &seed)
		os.Exit(asmbmc.Run(asmbmc.Opts{Tier: *tier, VerifDir: *verifDir, Seed: seed}))
	}
	os.Exit(gosym.RunProperty(gosym.RunOpts{Property: prop, Tier: *tier, Only: *only, VerifDir: *verifDir, Workers: *workers, Verbose: *verbose, NoReplay: *noReplay}))
}

func flagSet(fs *flag.FlagSet, name string) bool {
	found := false
	fs.Visit(func(f *flag.Flag) {
		if f.Name == name {
			found = true
		}
	})
	return found
}
