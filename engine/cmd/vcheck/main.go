package main

import (
	"encoding/json"
	"flag"
	"fmt"
	"os"
	"path/filepath"

	"verif/engine/asmbmc"
	"verif/engine/gosym"
)

func main() {
	if len(os.Args) < 2 {
		fmt.Fprintln(os.Stderr, "usage: vcheck <Cxx> [--tier quick|thorough] [--only harness] | vcheck selftest | vcheck --replay file")
		os.Exit(2)
	}
	prop := os.Args[1]
	if prop == "--replay" {
		if len(os.Args) < 3 {
			fmt.Fprintln(os.Stderr, "usage: vcheck --replay <file>")
			os.Exit(2)
		}
		os.Exit(gosym.ReplayFile("/verif", os.Args[2]))
	}
	fs := flag.NewFlagSet("vcheck", flag.ExitOnError)
	tier := fs.String("tier", "quick", "quick|thorough")
	only := fs.String("only", "", "run only harnesses whose name contains this")
	verifDir := fs.String("verif", "/verif", "verif root")
	workers := fs.Int("j", 0, "workers (0 = NumCPU)")
	verbose := fs.Bool("v", false, "verbose")
	noReplay := fs.Bool("no-replay", false, "skip native replay of violations")
	fs.Parse(os.Args[2:])
	if env := os.Getenv("VERIF_TIER"); env != "" && !flagSet(fs, "tier") {
		*tier = env
	}
	if prop == "C08" {
		seed := 0
		fmt.Sscanf(os.Getenv("VERIF_SEED"), "%d", &seed)
		os.Exit(asmbmc.Run(asmbmc.Opts{Tier: *tier, VerifDir: *verifDir, Seed: seed}))
	}
	if prop == "C09" && *only == "" {
		// C09 = lock discipline of the allocator (gosym monitor) + the lock really being exclusive (the C08 model,
		// regenerated from the current spinlock sources): the reduction argument needs both premises.
		rc := gosym.RunProperty(gosym.RunOpts{Property: prop, Tier: *tier, Only: *only, VerifDir: *verifDir, Workers: *workers, Verbose: *verbose, NoReplay: *noReplay})
		lrc := asmbmc.Run(asmbmc.Opts{Tier: "quick", VerifDir: *verifDir, As: "C09"})
		mergeLockEvidence(*verifDir, "C09")
		switch {
		case rc == 1 || lrc == 1:
			os.Exit(1)
		case rc != 0:
			os.Exit(rc)
		}
		os.Exit(lrc)
	}
	os.Exit(gosym.RunProperty(gosym.RunOpts{Property: prop, Tier: *tier, Only: *only, VerifDir: *verifDir, Workers: *workers, Verbose: *verbose, NoReplay: *noReplay}))
}

// mergeLockEvidence folds the lock-model run into the property's evidence file.
func mergeLockEvidence(verifDir, prop string) {
	evPath := filepath.Join(verifDir, "evidence", prop+".json")
	var ev, lock map[string]interface{}
	b, err := os.ReadFile(evPath)
	if err != nil || json.Unmarshal(b, &ev) != nil {
		return
	}
	lb, err := os.ReadFile(filepath.Join(verifDir, "out", prop, "lock", "evidence.json"))
	if err != nil || json.Unmarshal(lb, &lock) != nil {
		return
	}
	cov, _ := ev["coverage"].(map[string]interface{})
	lcov, _ := lock["coverage"].(map[string]interface{})
	if cov == nil || lcov == nil {
		return
	}
	cov["lock_premise"] = map[string]interface{}{"what": "the C08 transition-system queries, regenerated from kernel/sync in this run: the allocator's mutex admits one holder", "queries": lcov["queries"], "bounds": lcov["bounds"], "functions_encoded": lcov["functions_encoded"], "solver_time_s": lcov["solver_time_s"], "violations": lock["violations"], "inconclusive": lock["inconclusive"]}
	if v, ok := lock["violations"].(float64); ok {
		if w, ok := ev["violations"].(float64); ok {
			ev["violations"] = int(v + w)
		}
	}
	if v, ok := lock["wall_s"].(float64); ok {
		if w, ok := ev["wall_s"].(float64); ok {
			ev["wall_s"] = v + w
		}
	}
	out, _ := json.MarshalIndent(ev, "", " ")
	os.WriteFile(evPath, out, 0o644)
}

func flagSet(fs *flag.FlagSet, name string) bool {
	found := false
	fs.Visit(func(f *flag.Flag) {
		if f.Name == name {
			found = true
		}
	})
	return found
}
