// Package asmbmc decides C08 (spinlock mutual exclusion) on a transition system
// generated on every run from kernel/sync/spinlock_amd64.s and from the go/ssa
// bodies of Spinlock.Acquire / TryToAcquire / Release.
//
// Thread-local instructions are folded into macro-steps (one shared-memory access
// followed by the local instructions up to the next shared access); a bounded
// model with a symbolic schedule (Q1) and a one-step induction from an arbitrary
// state satisfying a label-free invariant (Q2) are handed to the solvers.
package asmbmc

import (
	"bufio"
	"fmt"
	"os"
	"regexp"
	"strings"

	"verif/engine/smt"
)

// ---------- assembly ----------

type insn struct {
	op   string
	a, b string
	line int
}

type asmFunc struct {
	ins    []insn
	labels map[string]int
}

var reLabel = regexp.MustCompile(`^([A-Za-z_][A-Za-z0-9_]*):$`)

func parseAsm(path, fn string) (*asmFunc, error) {
	f, err := os.Open(path)
	if err != nil {
		return nil, err
	}
	defer f.Close()
	af := &asmFunc{labels: map[string]int{}}
	in := false
	sc := bufio.NewScanner(f)
	ln := 0
	for sc.Scan() {
		ln++
		l := sc.Text()
		if i := strings.Index(l, "//"); i >= 0 {
			l = l[:i]
		}
		l = strings.TrimSpace(l)
		if l == "" || strings.HasPrefix(l, "#") {
			continue
		}
		if strings.HasPrefix(l, "TEXT") {
			in = strings.Contains(l, "·"+fn+"(SB)")
			continue
		}
		if !in {
			continue
		}
		if m := reLabel.FindStringSubmatch(l); m != nil {
			af.labels[m[1]] = len(af.ins)
			continue
		}
		fs := strings.Fields(l)
		op := fs[0]
		rest := strings.TrimSpace(strings.TrimPrefix(l, op))
		var a, b string
		if rest != "" {
			parts := strings.SplitN(rest, ",", 2)
			a = strings.TrimSpace(parts[0])
			if len(parts) > 1 {
				b = strings.TrimSpace(parts[1])
			}
		}
		af.ins = append(af.ins, insn{op: op, a: a, b: b, line: ln})
	}
	if len(af.ins) == 0 {
		return nil, fmt.Errorf("function %s not found in %s", fn, path)
	}
	return af, nil
}

// ---------- symbolic local execution ----------

type regs struct {
	ax     *smt.Term // 64
	bx, cx *smt.Term // 32
	zf     *smt.Term // bool
}

// leaf is one outcome of a macro-step.
type leaf struct {
	cond *smt.Term
	pc   int // next boundary pc, or pcRet
	r    regs
	lock *smt.Term
}

const pcRet = -1

type gen struct {
	c        *smt.Ctx
	af       *asmFunc
	lockAddr *smt.Term // symbolic non-zero address of the lock word
	attempts *smt.Term // attemptsBeforeYielding argument (from the SSA of Acquire)
	yieldFn  *smt.Term // value of the yieldFn global (symbolic)
	err      error
}

func (g *gen) fail(format string, a ...interface{}) {
	if g.err == nil {
		g.err = fmt.Errorf(format, a...)
	}
}

func (g *gen) isShared(in insn) bool {
	switch in.op {
	case "XCHGL":
		return true
	case "MOVL", "MOVQ":
		return in.a == "0(AX)" || in.b == "0(AX)"
	}
	return false
}

func (g *gen) operand32(s string, r regs) *smt.Term {
	c := g.c
	switch {
	case s == "BX":
		return r.bx
	case s == "CX":
		return r.cx
	case s == "AX":
		return c.Trunc(r.ax, 32)
	case strings.HasPrefix(s, "$"):
		var v uint64
		fmt.Sscanf(s[1:], "%d", &v)
		return c.Const(32, v)
	case strings.HasPrefix(s, "attemptsBeforeYielding+"):
		return g.attempts
	}
	g.fail("unsupported 32-bit operand %q", s)
	return c.Const(32, 0)
}

func (g *gen) setReg32(name string, v *smt.Term, r *regs) {
	switch name {
	case "BX":
		r.bx = v
	case "CX":
		r.cx = v
	default:
		g.fail("unsupported 32-bit destination %q", name)
	}
}

// run executes from pc; first==true means the instruction at pc is executed even if it is a shared access.
func (g *gen) run(pc int, r regs, lock *smt.Term, cond *smt.Term, first bool, depth int, out *[]leaf) {
	c := g.c
	for {
		if depth > 48 {
			g.fail("local block does not reach a shared access within 48 instructions (line %d)", g.af.ins[pc].line)
			return
		}
		depth++
		if pc >= len(g.af.ins) {
			g.fail("fell off the end of the function")
			return
		}
		in := g.af.ins[pc]
		if g.isShared(in) && !first {
			*out = append(*out, leaf{cond, pc, r, lock})
			return
		}
		first = false
		switch in.op {
		case "MOVQ":
			switch {
			case strings.HasPrefix(in.a, "state+") && in.b == "AX":
				r.ax = g.lockAddr
			case strings.HasPrefix(in.a, "·yieldFn+") && in.b == "AX":
				r.ax = g.yieldFn
			default:
				g.fail("unsupported MOVQ %s, %s (line %d)", in.a, in.b, in.line)
				return
			}
		case "MOVL":
			if in.a == "0(AX)" { // shared load
				if r.ax != g.lockAddr {
					g.fail("load through AX that is not the lock word (line %d)", in.line)
					return
				}
				g.setReg32(in.b, lock, &r)
			} else if in.b == "0(AX)" { // shared store
				if r.ax != g.lockAddr {
					g.fail("store through AX that is not the lock word (line %d)", in.line)
					return
				}
				lock = g.operand32(in.a, r)
			} else {
				g.setReg32(in.b, g.operand32(in.a, r), &r)
			}
		case "XCHGL":
			if in.a != "0(AX)" || r.ax != g.lockAddr {
				g.fail("unsupported XCHGL operands (line %d)", in.line)
				return
			}
			old := lock
			lock = g.operand32(in.b, r)
			g.setReg32(in.b, old, &r)
		case "TESTL":
			r.zf = c.Eq(c.Bin("bvand", g.operand32(in.a, r), g.operand32(in.b, r)), c.Const(32, 0))
		case "TESTQ":
			if in.a == "AX" && in.b == "AX" {
				r.zf = c.Eq(r.ax, c.Const(64, 0))
			} else {
				g.fail("unsupported TESTQ (line %d)", in.line)
				return
			}
		case "DECL":
			v := c.Bin("bvsub", g.operand32(in.a, r), c.Const(32, 1))
			g.setReg32(in.a, v, &r)
			r.zf = c.Eq(v, c.Const(32, 0))
		case "PAUSE":
		case "CALL":
			// CALL 0(AX): the yield function; modelled as a call with no effect on the lock word (clobbers nothing we track)
		case "RET":
			*out = append(*out, leaf{cond, pcRet, r, lock})
			return
		case "JMP", "JNZ", "JZ":
			tgt, ok := g.af.labels[in.a]
			if !ok {
				g.fail("unknown label %q (line %d)", in.a, in.line)
				return
			}
			if in.op == "JMP" {
				pc = tgt
				continue
			}
			take := r.zf
			if in.op == "JNZ" {
				take = c.Not(r.zf)
			}
			if take.IsTrue() {
				pc = tgt
				continue
			}
			if take.IsFalse() {
				pc++
				continue
			}
			g.run(tgt, r, lock, c.And(cond, take), false, depth, out)
			g.run(pc+1, r, lock, c.And(cond, c.Not(take)), false, depth, out)
			return
		default:
			g.fail("unsupported instruction %s (line %d)", in.op, in.line)
			return
		}
		pc++
	}
}

func sortedBoundaries(m map[int]bool) []int {
	var r []int
	for k := range m {
		r = append(r, k)
	}
	for i := 0; i < len(r); i++ {
		for j := i + 1; j < len(r); j++ {
			if r[j] < r[i] {
				r[i], r[j] = r[j], r[i]
			}
		}
	}
	return r
}
