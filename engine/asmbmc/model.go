package asmbmc

import (
	"bytes"
	"context"
	"encoding/json"
	"fmt"
	"go/constant"
	"go/token"
	"os"
	"os/exec"
	"path/filepath"
	"strconv"
	"strings"
	"time"

	"golang.org/x/tools/go/packages"
	"golang.org/x/tools/go/ssa"
	"golang.org/x/tools/go/ssa/ssautil"

	"verif/engine/smt"
)

const (
	pIdle = 200
	pCS1  = 201
	pCS2  = 202
	pRel  = 203
	pDone = 204
)

// goModel holds what the SSA of the three Spinlock methods contributes.
type goModel struct {
	attempts uint64 // Acquire: second argument of archAcquireSpinlock
	swapVal  uint64 // TryToAcquire: value swapped in
	cmpVal   uint64 // TryToAcquire: success iff old == cmpVal
	cmpEq    bool   // TryToAcquire compares with == (false: !=)
	relVal   uint64 // Release: value stored
	funcs    []string
}

func constOf(v ssa.Value) (uint64, bool) {
	c, ok := v.(*ssa.Const)
	if !ok || c.Value == nil || c.Value.Kind() != constant.Int {
		return 0, false
	}
	u, ok := constant.Uint64Val(c.Value)
	return u, ok
}

func isStateAddr(v ssa.Value) bool {
	fa, ok := v.(*ssa.FieldAddr)
	if !ok {
		return false
	}
	_, isParam := fa.X.(*ssa.Parameter)
	return isParam && fa.Field == 0
}

func onlyCall(fn *ssa.Function) (*ssa.Call, []ssa.Instruction, error) {
	if len(fn.Blocks) != 1 {
		return nil, nil, fmt.Errorf("%s: expected a single basic block, found %d", fn, len(fn.Blocks))
	}
	var call *ssa.Call
	var rest []ssa.Instruction
	for _, in := range fn.Blocks[0].Instrs {
		switch x := in.(type) {
		case *ssa.Call:
			if call != nil {
				return nil, nil, fmt.Errorf("%s: more than one call", fn)
			}
			call = x
		case *ssa.FieldAddr, *ssa.DebugRef:
		default:
			rest = append(rest, in)
		}
	}
	if call == nil {
		return nil, nil, fmt.Errorf("%s: no call found", fn)
	}
	return call, rest, nil
}

func loadGoModel(kernelDir string) (*goModel, error) {
	cfg := &packages.Config{Mode: packages.LoadAllSyntax, Dir: kernelDir,
		Env: append(os.Environ(), "GOFLAGS=-mod=mod", "GOPROXY=off", "GOSUMDB=off", "GOTOOLCHAIN=local", "GOWORK=off")}
	pkgs, err := packages.Load(cfg, "./sync")
	if err != nil {
		return nil, err
	}
	if packages.PrintErrors(pkgs) > 0 {
		return nil, fmt.Errorf("kernel/sync does not type-check")
	}
	prog, spkgs := ssautil.AllPackages(pkgs, 0)
	prog.Build()
	sp := spkgs[0]
	typ := sp.Type("Spinlock")
	if typ == nil {
		return nil, fmt.Errorf("type Spinlock not found")
	}
	method := func(name string) *ssa.Function {
		ms := prog.MethodSets.MethodSet(typesPtr(typ.Type()))
		for i := 0; i < ms.Len(); i++ {
			if ms.At(i).Obj().Name() == name {
				return prog.MethodValue(ms.At(i))
			}
		}
		return nil
	}
	m := &goModel{}
	// Acquire
	acq := method("Acquire")
	if acq == nil {
		return nil, fmt.Errorf("Spinlock.Acquire not found")
	}
	call, rest, err := onlyCall(acq)
	if err != nil {
		return nil, err
	}
	callee := call.Common().StaticCallee()
	if callee == nil || callee.Name() != "archAcquireSpinlock" || len(call.Common().Args) != 2 || !isStateAddr(call.Common().Args[0]) {
		return nil, fmt.Errorf("Acquire: expected archAcquireSpinlock(&l.state, const), found %s", call)
	}
	var ok bool
	if m.attempts, ok = constOf(call.Common().Args[1]); !ok {
		return nil, fmt.Errorf("Acquire: attempts argument is not a constant")
	}
	for _, in := range rest {
		if _, isRet := in.(*ssa.Return); !isRet {
			return nil, fmt.Errorf("Acquire: unsupported instruction %s", in)
		}
	}
	// TryToAcquire
	try := method("TryToAcquire")
	if try == nil {
		return nil, fmt.Errorf("Spinlock.TryToAcquire not found")
	}
	call, rest, err = onlyCall(try)
	if err != nil {
		return nil, err
	}
	callee = call.Common().StaticCallee()
	if callee == nil || callee.String() != "sync/atomic.SwapUint32" || !isStateAddr(call.Common().Args[0]) {
		return nil, fmt.Errorf("TryToAcquire: expected atomic.SwapUint32(&l.state, const), found %s", call)
	}
	if m.swapVal, ok = constOf(call.Common().Args[1]); !ok {
		return nil, fmt.Errorf("TryToAcquire: swapped value is not a constant")
	}
	sawCmp, sawRet := false, false
	for _, in := range rest {
		switch x := in.(type) {
		case *ssa.BinOp:
			if x.X != ssa.Value(call) || (x.Op != token.EQL && x.Op != token.NEQ) {
				return nil, fmt.Errorf("TryToAcquire: unsupported comparison %s", x)
			}
			if m.cmpVal, ok = constOf(x.Y); !ok {
				return nil, fmt.Errorf("TryToAcquire: comparison with a non-constant")
			}
			m.cmpEq = x.Op == token.EQL
			sawCmp = true
		case *ssa.Return:
			if len(x.Results) != 1 {
				return nil, fmt.Errorf("TryToAcquire: unexpected return")
			}
			if _, isBin := x.Results[0].(*ssa.BinOp); !isBin {
				return nil, fmt.Errorf("TryToAcquire: returns something other than the comparison")
			}
			sawRet = true
		default:
			return nil, fmt.Errorf("TryToAcquire: unsupported instruction %s", in)
		}
	}
	if !sawCmp || !sawRet {
		return nil, fmt.Errorf("TryToAcquire: comparison/return not found")
	}
	// Release
	rel := method("Release")
	if rel == nil {
		return nil, fmt.Errorf("Spinlock.Release not found")
	}
	call, rest, err = onlyCall(rel)
	if err != nil {
		return nil, err
	}
	callee = call.Common().StaticCallee()
	if callee == nil || callee.String() != "sync/atomic.StoreUint32" || !isStateAddr(call.Common().Args[0]) {
		return nil, fmt.Errorf("Release: expected atomic.StoreUint32(&l.state, const), found %s", call)
	}
	if m.relVal, ok = constOf(call.Common().Args[1]); !ok {
		return nil, fmt.Errorf("Release: stored value is not a constant")
	}
	for _, in := range rest {
		if _, isRet := in.(*ssa.Return); !isRet {
			return nil, fmt.Errorf("Release: unsupported instruction %s", in)
		}
	}
	m.funcs = []string{acq.String(), try.String(), rel.String(), "kernel/sync.archAcquireSpinlock (spinlock_amd64.s)"}
	return m, nil
}

// ---------- transition system ----------

type tstate struct {
	pc, k          *smt.Term // BV8, BV8
	bx, cx         *smt.Term
	zf             *smt.Term
	tmp            *smt.Term
}

type gstate struct {
	th                  []tstate
	lock, counter, done *smt.Term
}

type system struct {
	g      *gen
	gm     *goModel
	c      *smt.Ctx
	T, M   int
	bounds []int             // asm boundary pcs
	facts  map[int]factRegs  // register constants known at each boundary
	ops    [][]*smt.Term     // ops[t][m]: true = Acquire, false = TryToAcquire
	tryBad []*smt.Term       // "TryToAcquire failed but changed the lock word" indicators collected while unrolling
}

type factRegs struct {
	axIsLock bool
	bx, cx   *uint64
}

func (s *system) freshState(tag string) gstate {
	c := s.c
	gs := gstate{lock: c.Var(32, "lock_"+tag), counter: c.Var(32, "counter_"+tag), done: c.Var(32, "done_"+tag)}
	for t := 0; t < s.T; t++ {
		p := fmt.Sprintf("t%d_%s", t, tag)
		gs.th = append(gs.th, tstate{pc: c.Var(8, "pc_"+p), k: c.Var(8, "k_"+p), bx: c.Var(32, "bx_"+p), cx: c.Var(32, "cx_"+p),
			zf: c.Var(0, "zf_"+p), tmp: c.Var(32, "tmp_"+p)})
	}
	return gs
}

// computeFacts: dataflow over macro-steps for register constants at boundaries.
func (s *system) computeFacts() {
	g := s.g
	c := s.c
	type fact struct {
		seen            bool
		axLock          bool
		bx, cx          *smt.Term // nil = unknown (top)
		bxTop, cxTop    bool
	}
	facts := map[int]*fact{}
	meet := func(pc int, r regs) bool {
		f := facts[pc]
		if f == nil {
			f = &fact{}
			facts[pc] = f
		}
		changed := false
		if !f.seen {
			f.seen, f.axLock = true, r.ax == g.lockAddr
			if r.bx.IsConst() {
				f.bx = r.bx
			} else {
				f.bxTop = true
			}
			if r.cx.IsConst() {
				f.cx = r.cx
			} else {
				f.cxTop = true
			}
			return true
		}
		if f.axLock && r.ax != g.lockAddr {
			f.axLock, changed = false, true
		}
		if !f.bxTop && (!r.bx.IsConst() || r.bx != f.bx) {
			f.bxTop, f.bx, changed = true, nil, true
		}
		if !f.cxTop && (!r.cx.IsConst() || r.cx != f.cx) {
			f.cxTop, f.cx, changed = true, nil, true
		}
		return changed
	}
	any := 0
	freshRegs := func(f *fact) regs {
		any++
		r := regs{ax: c.Var(64, fmt.Sprintf("anyax%d", any)), bx: c.Var(32, fmt.Sprintf("anybx%d", any)), cx: c.Var(32, fmt.Sprintf("anycx%d", any)), zf: c.Var(0, fmt.Sprintf("anyzf%d", any))}
		if f != nil {
			if f.axLock {
				r.ax = g.lockAddr
			}
			if !f.bxTop && f.bx != nil {
				r.bx = f.bx
			}
			if !f.cxTop && f.cx != nil {
				r.cx = f.cx
			}
		}
		return r
	}
	lock := c.Var(32, "anylock")
	var entry []leaf
	g.run(0, freshRegs(nil), lock, c.True(), false, 0, &entry)
	work := []int{}
	for _, l := range entry {
		if l.pc != pcRet && meet(l.pc, l.r) {
			work = append(work, l.pc)
		}
	}
	for iter := 0; len(work) > 0 && iter < 1000; iter++ {
		p := work[0]
		work = work[1:]
		var ls []leaf
		g.run(p, freshRegs(facts[p]), lock, c.True(), true, 0, &ls)
		for _, l := range ls {
			if l.pc != pcRet && meet(l.pc, l.r) {
				work = append(work, l.pc)
			}
		}
	}
	s.facts = map[int]factRegs{}
	bs := map[int]bool{}
	for p, f := range facts {
		bs[p] = true
		fr := factRegs{axIsLock: f.axLock}
		if !f.bxTop && f.bx != nil {
			v := f.bx.Val
			fr.bx = &v
		}
		if !f.cxTop && f.cx != nil {
			v := f.cx.Val
			fr.cx = &v
		}
		s.facts[p] = fr
	}
	s.bounds = sortedBoundaries(bs)
}

func (s *system) regsAt(p int, ts tstate) regs {
	c := s.c
	f := s.facts[p]
	r := regs{ax: c.Var(64, "ax_unknown"), bx: ts.bx, cx: ts.cx, zf: ts.zf}
	if f.axIsLock {
		r.ax = s.g.lockAddr
	}
	if f.bx != nil {
		r.bx = c.Const(32, *f.bx)
	}
	if f.cx != nil {
		r.cx = c.Const(32, *f.cx)
	}
	return r
}

// factsHold: the register facts hold for thread state ts.
func (s *system) factsHold(ts tstate) *smt.Term {
	c := s.c
	ok := c.True()
	for _, p := range s.bounds {
		f := s.facts[p]
		at := c.Eq(ts.pc, c.Const(8, uint64(p)))
		if f.bx != nil {
			ok = c.And(ok, c.Implies(at, c.Eq(ts.bx, c.Const(32, *f.bx))))
		}
		if f.cx != nil {
			ok = c.And(ok, c.Implies(at, c.Eq(ts.cx, c.Const(32, *f.cx))))
		}
	}
	return ok
}

func (s *system) holder(ts tstate) *smt.Term {
	c := s.c
	return c.Or(c.Eq(ts.pc, c.Const(8, pCS1)), c.Or(c.Eq(ts.pc, c.Const(8, pCS2)), c.Eq(ts.pc, c.Const(8, pRel))))
}

func (s *system) opIsAcquire(t int, k *smt.Term) *smt.Term {
	c := s.c
	r := c.False()
	for m := 0; m < s.M; m++ {
		r = c.Ite(c.Eq(k, c.Const(8, uint64(m))), s.ops[t][m], r)
	}
	return r
}

// step returns the state after thread t takes one macro-step, and a flag "a failed TryToAcquire changed the lock word".
func (s *system) step(gs gstate, t int) (gstate, *smt.Term) {
	c := s.c
	g := s.g
	ts := gs.th[t]
	type upd struct {
		cond                *smt.Term
		ts                  tstate
		lock, counter, done *smt.Term
	}
	var ups []upd
	tryBad := c.False()
	pcIs := func(v int) *smt.Term { return c.Eq(ts.pc, c.Const(8, uint64(v))) }
	c8 := func(v int) *smt.Term { return c.Const(8, uint64(v)) }
	one8 := c.Const(8, 1)
	fromLeaves := func(cond *smt.Term, ls []leaf) {
		for _, l := range ls {
			n := ts
			n.bx, n.cx, n.zf = l.r.bx, l.r.cx, l.r.zf
			if l.pc == pcRet {
				n.pc = c8(pCS1)
			} else {
				n.pc = c8(l.pc)
			}
			ups = append(ups, upd{c.And(cond, l.cond), n, l.lock, gs.counter, gs.done})
		}
	}
	// idle: start the next lock operation (or finish)
	finished := c.Not(c.Cmp("bvult", ts.k, c8(s.M)))
	{
		n := ts
		n.pc = c8(pDone)
		ups = append(ups, upd{c.And(pcIs(pIdle), finished), n, gs.lock, gs.counter, gs.done})
	}
	isAcq := s.opIsAcquire(t, ts.k)
	{
		// Acquire: local prologue up to the first shared access
		var ls []leaf
		r := regs{ax: c.Var(64, "ax_entry"), bx: ts.bx, cx: ts.cx, zf: ts.zf}
		g.run(0, r, gs.lock, c.True(), false, 0, &ls)
		fromLeaves(c.And(pcIs(pIdle), c.And(c.Not(finished), isAcq)), ls)
	}
	{
		// TryToAcquire: one atomic swap
		cond := c.And(pcIs(pIdle), c.And(c.Not(finished), c.Not(isAcq)))
		old := gs.lock
		newLock := c.Const(32, s.gm.swapVal)
		succ := c.Eq(old, c.Const(32, s.gm.cmpVal))
		if !s.gm.cmpEq {
			succ = c.Not(succ)
		}
		n := ts
		n.pc = c8(pCS1)
		ups = append(ups, upd{c.And(cond, succ), n, newLock, gs.counter, gs.done})
		f := ts
		f.k = c.Bin("bvadd", ts.k, one8)
		f.pc = c8(pIdle)
		ups = append(ups, upd{c.And(cond, c.Not(succ)), f, newLock, gs.counter, gs.done})
		tryBad = c.And(c.And(cond, c.Not(succ)), c.Not(c.Eq(newLock, old)))
	}
	// assembly macro-steps
	for _, p := range s.bounds {
		var ls []leaf
		g.run(p, s.regsAt(p, ts), gs.lock, c.True(), true, 0, &ls)
		fromLeaves(pcIs(p), ls)
	}
	// critical section and release
	{
		n := ts
		n.pc, n.tmp = c8(pCS2), gs.counter
		ups = append(ups, upd{pcIs(pCS1), n, gs.lock, gs.counter, gs.done})
		n2 := ts
		n2.pc = c8(pRel)
		ups = append(ups, upd{pcIs(pCS2), n2, gs.lock, c.Bin("bvadd", ts.tmp, c.Const(32, 1)), gs.done})
		n3 := ts
		n3.pc, n3.k = c8(pIdle), c.Bin("bvadd", ts.k, one8)
		ups = append(ups, upd{pcIs(pRel), n3, c.Const(32, s.gm.relVal), gs.counter, c.Bin("bvadd", gs.done, c.Const(32, 1))})
	}
	// default: stutter (done threads, unknown pcs)
	ns := gs
	ns.th = append([]tstate(nil), gs.th...)
	cur := ts
	lock, counter, done := gs.lock, gs.counter, gs.done
	for i := len(ups) - 1; i >= 0; i-- {
		u := ups[i]
		cur = tstate{pc: c.Ite(u.cond, u.ts.pc, cur.pc), k: c.Ite(u.cond, u.ts.k, cur.k), bx: c.Ite(u.cond, u.ts.bx, cur.bx),
			cx: c.Ite(u.cond, u.ts.cx, cur.cx), zf: c.Ite(u.cond, u.ts.zf, cur.zf), tmp: c.Ite(u.cond, u.ts.tmp, cur.tmp)}
		lock = c.Ite(u.cond, u.lock, lock)
		counter = c.Ite(u.cond, u.counter, counter)
		done = c.Ite(u.cond, u.done, done)
	}
	ns.th[t] = cur
	ns.lock, ns.counter, ns.done = lock, counter, done
	return ns, tryBad
}

func (s *system) countHolders(gs gstate) *smt.Term {
	c := s.c
	n := c.Const(8, 0)
	for _, ts := range gs.th {
		n = c.Bin("bvadd", n, c.Ite(s.holder(ts), c.Const(8, 1), c.Const(8, 0)))
	}
	return n
}

// safe: the per-state safety properties.
func (s *system) safe(gs gstate) *smt.Term {
	c := s.c
	ok := c.Not(c.Cmp("bvult", c.Const(8, 1), s.countHolders(gs))) // at most one holder
	allDone := c.True()
	for _, ts := range gs.th {
		allDone = c.And(allDone, c.Eq(ts.pc, c.Const(8, pDone)))
	}
	ok = c.And(ok, c.Implies(allDone, c.Eq(gs.counter, gs.done))) // no lost update
	return ok
}

func (s *system) validPC(ts tstate) *smt.Term {
	c := s.c
	v := c.False()
	for _, p := range append(append([]int(nil), s.bounds...), pIdle, pCS1, pCS2, pRel, pDone) {
		v = c.Or(v, c.Eq(ts.pc, c.Const(8, uint64(p))))
	}
	return v
}

// inv: the label-free invariant used by the induction query.
func (s *system) inv(gs gstate) *smt.Term {
	c := s.c
	ok := c.Or(c.Eq(gs.lock, c.Const(32, 0)), c.Eq(gs.lock, c.Const(32, 1)))
	h := s.countHolders(gs)
	ok = c.And(ok, c.Not(c.Cmp("bvult", c.Const(8, 1), h)))
	ok = c.And(ok, c.Implies(c.Eq(gs.lock, c.Const(32, 0)), c.Eq(h, c.Const(8, 0))))
	stored := c.Const(32, 0)
	for _, ts := range gs.th {
		ok = c.And(ok, s.validPC(ts))
		ok = c.And(ok, s.factsHold(ts))
		ok = c.And(ok, c.Not(c.Cmp("bvult", c.Const(8, uint64(s.M)), ts.k)))
		ok = c.And(ok, c.Implies(c.Eq(ts.pc, c.Const(8, pCS2)), c.Eq(ts.tmp, gs.counter)))
		busy := c.Not(c.Or(c.Eq(ts.pc, c.Const(8, pIdle)), c.Eq(ts.pc, c.Const(8, pDone))))
		ok = c.And(ok, c.Implies(busy, c.Cmp("bvult", ts.k, c.Const(8, uint64(s.M)))))
		stored = c.Bin("bvadd", stored, c.Ite(c.Eq(ts.pc, c.Const(8, pRel)), c.Const(32, 1), c.Const(32, 0)))
	}
	ok = c.And(ok, c.Eq(gs.counter, c.Bin("bvadd", gs.done, stored)))
	return ok
}

func (s *system) initial(gs gstate) *smt.Term {
	c := s.c
	ok := c.And(c.Eq(gs.lock, c.Const(32, 0)), c.And(c.Eq(gs.counter, c.Const(32, 0)), c.Eq(gs.done, c.Const(32, 0))))
	for _, ts := range gs.th {
		ok = c.And(ok, c.And(c.Eq(ts.pc, c.Const(8, pIdle)), c.Eq(ts.k, c.Const(8, 0))))
	}
	return ok
}

// ---------- solving ----------

type queryResult struct {
	Name    string  `json:"name"`
	Result  string  `json:"result"`
	Solver  string  `json:"solver"`
	Seconds float64 `json:"seconds"`
	Cross   string  `json:"cross_check,omitempty"`
}

func solveOne(script string, solver []string, timeout time.Duration, scratch, tag string) (string, string) {
	f := filepath.Join(scratch, "c08-"+tag+".smt2")
	os.WriteFile(f, []byte(script), 0o644)
	ctx, cancel := context.WithTimeout(context.Background(), timeout)
	defer cancel()
	cmd := exec.CommandContext(ctx, solver[0], append(solver[1:], f)...)
	var out bytes.Buffer
	cmd.Stdout = &out
	cmd.Run()
	txt := out.String()
	first := strings.TrimSpace(strings.SplitN(txt, "\n", 2)[0])
	if first != "sat" && first != "unsat" {
		return "unknown", txt
	}
	if strings.Contains(txt, "(error") && first != "unsat" {
		return "unknown", txt
	}
	return first, txt
}

func newSystem(kernelDir string, T, M int) (*system, error) {
	gm, err := loadGoModel(kernelDir)
	if err != nil {
		return nil, err
	}
	af, err := parseAsm(filepath.Join(kernelDir, "sync", "spinlock_amd64.s"), "archAcquireSpinlock")
	if err != nil {
		return nil, err
	}
	c := smt.NewCtx()
	g := &gen{c: c, af: af, lockAddr: c.Var(64, "LOCKADDR"), attempts: c.Const(32, gm.attempts), yieldFn: c.Var(64, "YIELDFN")}
	s := &system{g: g, gm: gm, c: c, T: T, M: M}
	for t := 0; t < T; t++ {
		var row []*smt.Term
		for m := 0; m < M; m++ {
			row = append(row, c.Var(0, fmt.Sprintf("op_t%d_m%d", t, m)))
		}
		s.ops = append(s.ops, row)
	}
	s.computeFacts()
	if g.err != nil {
		return nil, g.err
	}
	if len(s.bounds) == 0 {
		return nil, fmt.Errorf("no shared access found in archAcquireSpinlock")
	}
	return s, nil
}

type traceStep struct {
	Step    int      `json:"step"`
	Thread  uint64   `json:"thread"`
	Lock    uint64   `json:"lock"`
	Counter uint64   `json:"counter"`
	Done    uint64   `json:"done"`
	PCs     []string `json:"pcs"`
}

func (s *system) pcName(v uint64) string {
	switch v {
	case pIdle:
		return "idle"
	case pCS1:
		return "holding:read-counter"
	case pCS2:
		return "holding:write-counter"
	case pRel:
		return "holding:release"
	case pDone:
		return "done"
	}
	if int(v) < len(s.g.af.ins) {
		in := s.g.af.ins[v]
		return fmt.Sprintf("asm:%d(%s %s,%s)", in.line, in.op, in.a, in.b)
	}
	return fmt.Sprintf("pc%d", v)
}

// parseModelValues extracts name -> value pairs from a (get-value ...) style output.
func parseModelValues(txt string) map[string]uint64 {
	m := map[string]uint64{}
	for _, line := range strings.Split(txt, "\n") {
		line = strings.TrimSpace(line)
		line = strings.Trim(line, "()")
		f := strings.Fields(line)
		if len(f) < 2 {
			continue
		}
		name, val := f[0], strings.Join(f[1:], " ")
		val = strings.Trim(val, "()")
		switch {
		case strings.HasPrefix(val, "#b"):
			u, _ := strconv.ParseUint(val[2:], 2, 64)
			m[name] = u
		case strings.HasPrefix(val, "#x"):
			u, _ := strconv.ParseUint(val[2:], 16, 64)
			m[name] = u
		case strings.HasPrefix(val, "_ bv"):
			u, _ := strconv.ParseUint(strings.Fields(val[4:])[0], 10, 64)
			m[name] = u
		case val == "true":
			m[name] = 1
		case val == "false":
			m[name] = 0
		}
	}
	return m
}

func writeJSON(path string, v interface{}) {
	b, _ := json.MarshalIndent(v, "", " ")
	os.WriteFile(path, b, 0o644)
}
