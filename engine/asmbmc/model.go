package asmbmc

import (
	"bytes"
	"context"
	"encoding/json"
	"fmt"
	"go/constant"
	"go/token"
	"os"
	"os/exec"
	"path/filepath"
	"strconv"
	"strings"
	"time"

	"golang.org/x/tools/go/packages"
	"golang.org/x/tools/go/ssa"
	"golang.org/x/tools/go/ssa/ssautil"

	"verif/engine/smt"
)

const (
	pIdle = 200
	pCS1  = 201
	pCS2  = 202
	pMeth = 203 // inside a Go method of the lock, about to perform the shared access of node (meth, node)
	pDone = 204
)

// goModel holds the compiled Go bodies of the three Spinlock methods.
type goModel struct {
	meth  [3]*method // 0 Acquire, 1 TryToAcquire, 2 Release
	funcs []string
}

func loadGoModel(kernelDir string) (*goModel, error) {
	cfg := &packages.Config{Mode: packages.LoadAllSyntax, Dir: kernelDir,
		Env: append(os.Environ(), "GOFLAGS=-mod=mod", "GOPROXY=off", "GOSUMDB=off", "GOTOOLCHAIN=local", "GOWORK=off")}
	pkgs, err := packages.Load(cfg, "./sync")
	if err != nil {
		return nil, err
	}
	if packages.PrintErrors(pkgs) > 0 {
		return nil, fmt.Errorf("kernel/sync does not type-check")
	}
	prog, spkgs := ssautil.AllPackages(pkgs, 0)
	prog.Build()
	sp := spkgs[0]
	typ := sp.Type("Spinlock")
	if typ == nil {
		return nil, fmt.Errorf("type Spinlock not found")
	}
	m := &goModel{}
	for i, name := range []string{"Acquire", "TryToAcquire", "Release"} {
		var fn *ssa.Function
		ms := prog.MethodSets.MethodSet(typesPtr(typ.Type()))
		for k := 0; k < ms.Len(); k++ {
			if ms.At(k).Obj().Name() == name {
				fn = prog.MethodValue(ms.At(k))
			}
		}
		if fn == nil {
			return nil, fmt.Errorf("Spinlock.%s not found", name)
		}
		cm, err := compileMethod(fn)
		if err != nil {
			return nil, err
		}
		m.meth[i] = cm
		m.funcs = append(m.funcs, fn.String())
	}
	m.funcs = append(m.funcs, "kernel/sync.archAcquireSpinlock (spinlock_amd64.s)")
	return m, nil
}

var _ = constant.Int
var _ = token.EQL

// ---------- transition system ----------

type tstate struct {
	pc, k      *smt.Term // BV8, BV8
	bx, cx     *smt.Term
	zf         *smt.Term
	tmp        *smt.Term
	meth, node *smt.Term           // BV8: which method / which node of it the thread is in
	r          [maxSlots]*smt.Term // results of earlier atomic operations of the current method
	hold       *smt.Term           // Bool: between a successful acquire and the return of Release
	wrote      *smt.Term           // Bool: the critical section's store has happened, Release has not returned
	dirty      *smt.Term           // Bool: the current method call changed the lock word
}

func iteTS(c *smt.Ctx, cond *smt.Term, a, b tstate) tstate {
	r := tstate{pc: c.Ite(cond, a.pc, b.pc), k: c.Ite(cond, a.k, b.k), bx: c.Ite(cond, a.bx, b.bx), cx: c.Ite(cond, a.cx, b.cx),
		zf: c.Ite(cond, a.zf, b.zf), tmp: c.Ite(cond, a.tmp, b.tmp), meth: c.Ite(cond, a.meth, b.meth), node: c.Ite(cond, a.node, b.node),
		hold: c.Ite(cond, a.hold, b.hold), wrote: c.Ite(cond, a.wrote, b.wrote), dirty: c.Ite(cond, a.dirty, b.dirty)}
	for i := range r.r {
		r.r[i] = c.Ite(cond, a.r[i], b.r[i])
	}
	return r
}

type gstate struct {
	th                  []tstate
	lock, counter, done *smt.Term
}

type system struct {
	g      *gen
	gm     *goModel
	c      *smt.Ctx
	T, M   int
	bounds []int            // asm boundary pcs
	facts  map[int]factRegs // register constants known at each boundary
	ops    [][]*smt.Term    // ops[t][m]: true = Acquire, false = TryToAcquire
	tryBad []*smt.Term      // "TryToAcquire failed but changed the lock word" indicators collected while unrolling
}

type factRegs struct {
	axIsLock bool
	bx, cx   *uint64
}

func (s *system) freshState(tag string) gstate {
	c := s.c
	gs := gstate{lock: c.Var(32, "lock_"+tag), counter: c.Var(32, "counter_"+tag), done: c.Var(32, "done_"+tag)}
	for t := 0; t < s.T; t++ {
		p := fmt.Sprintf("t%d_%s", t, tag)
		ts := tstate{pc: c.Var(8, "pc_"+p), k: c.Var(8, "k_"+p), bx: c.Var(32, "bx_"+p), cx: c.Var(32, "cx_"+p),
			zf: c.Var(0, "zf_"+p), tmp: c.Var(32, "tmp_"+p), meth: c.Var(8, "meth_"+p), node: c.Var(8, "node_"+p),
			hold: c.Var(0, "hold_"+p), wrote: c.Var(0, "wrote_"+p), dirty: c.Var(0, "dirty_"+p)}
		for i := range ts.r {
			ts.r[i] = c.Var(32, fmt.Sprintf("r%d_%s", i, p))
		}
		gs.th = append(gs.th, ts)
	}
	return gs
}

// computeFacts: dataflow over macro-steps for register constants at boundaries.
func (s *system) computeFacts() {
	g := s.g
	c := s.c
	type fact struct {
		seen         bool
		axLock       bool
		bx, cx       *smt.Term // nil = unknown (top)
		bxTop, cxTop bool
	}
	facts := map[int]*fact{}
	meet := func(pc int, r regs) bool {
		f := facts[pc]
		if f == nil {
			f = &fact{}
			facts[pc] = f
		}
		changed := false
		if !f.seen {
			f.seen, f.axLock = true, r.ax == g.lockAddr
			if r.bx.IsConst() {
				f.bx = r.bx
			} else {
				f.bxTop = true
			}
			if r.cx.IsConst() {
				f.cx = r.cx
			} else {
				f.cxTop = true
			}
			return true
		}
		if f.axLock && r.ax != g.lockAddr {
			f.axLock, changed = false, true
		}
		if !f.bxTop && (!r.bx.IsConst() || r.bx != f.bx) {
			f.bxTop, f.bx, changed = true, nil, true
		}
		if !f.cxTop && (!r.cx.IsConst() || r.cx != f.cx) {
			f.cxTop, f.cx, changed = true, nil, true
		}
		return changed
	}
	any := 0
	freshRegs := func(f *fact) regs {
		any++
		r := regs{ax: c.Var(64, fmt.Sprintf("anyax%d", any)), bx: c.Var(32, fmt.Sprintf("anybx%d", any)), cx: c.Var(32, fmt.Sprintf("anycx%d", any)), zf: c.Var(0, fmt.Sprintf("anyzf%d", any))}
		if f != nil {
			if f.axLock {
				r.ax = g.lockAddr
			}
			if !f.bxTop && f.bx != nil {
				r.bx = f.bx
			}
			if !f.cxTop && f.cx != nil {
				r.cx = f.cx
			}
		}
		return r
	}
	lock := c.Var(32, "anylock")
	var entry []leaf
	g.run(0, freshRegs(nil), lock, c.True(), false, 0, &entry)
	work := []int{}
	for _, l := range entry {
		if l.pc != pcRet && meet(l.pc, l.r) {
			work = append(work, l.pc)
		}
	}
	for iter := 0; len(work) > 0 && iter < 1000; iter++ {
		p := work[0]
		work = work[1:]
		var ls []leaf
		g.run(p, freshRegs(facts[p]), lock, c.True(), true, 0, &ls)
		for _, l := range ls {
			if l.pc != pcRet && meet(l.pc, l.r) {
				work = append(work, l.pc)
			}
		}
	}
	s.facts = map[int]factRegs{}
	bs := map[int]bool{}
	for p, f := range facts {
		bs[p] = true
		fr := factRegs{axIsLock: f.axLock}
		if !f.bxTop && f.bx != nil {
			v := f.bx.Val
			fr.bx = &v
		}
		if !f.cxTop && f.cx != nil {
			v := f.cx.Val
			fr.cx = &v
		}
		s.facts[p] = fr
	}
	s.bounds = sortedBoundaries(bs)
}

func (s *system) regsAt(p int, ts tstate) regs {
	c := s.c
	f := s.facts[p]
	r := regs{ax: c.Var(64, "ax_unknown"), bx: ts.bx, cx: ts.cx, zf: ts.zf}
	if f.axIsLock {
		r.ax = s.g.lockAddr
	}
	if f.bx != nil {
		r.bx = c.Const(32, *f.bx)
	}
	if f.cx != nil {
		r.cx = c.Const(32, *f.cx)
	}
	return r
}

// factsHold: the register facts hold for thread state ts.
func (s *system) factsHold(ts tstate) *smt.Term {
	c := s.c
	ok := c.True()
	for _, p := range s.bounds {
		f := s.facts[p]
		at := c.Eq(ts.pc, c.Const(8, uint64(p)))
		if f.bx != nil {
			ok = c.And(ok, c.Implies(at, c.Eq(ts.bx, c.Const(32, *f.bx))))
		}
		if f.cx != nil {
			ok = c.And(ok, c.Implies(at, c.Eq(ts.cx, c.Const(32, *f.cx))))
		}
	}
	return ok
}

func (s *system) holder(ts tstate) *smt.Term { return ts.hold }

func (s *system) opIsAcquire(t int, k *smt.Term) *smt.Term {
	c := s.c
	r := c.False()
	for m := 0; m < s.M; m++ {
		r = c.Ite(c.Eq(k, c.Const(8, uint64(m))), s.ops[t][m], r)
	}
	return r
}

// step returns the state after thread t takes one macro-step, and a flag "a failed TryToAcquire changed the lock word".
func (s *system) step(gs gstate, t int) (gstate, *smt.Term) {
	c := s.c
	g := s.g
	ts := gs.th[t]
	type upd struct {
		cond                *smt.Term
		ts                  tstate
		lock, counter, done *smt.Term
		tryBad              *smt.Term
	}
	var ups []upd
	pcIs := func(v int) *smt.Term { return c.Eq(ts.pc, c.Const(8, uint64(v))) }
	c8 := func(v int) *smt.Term { return c.Const(8, uint64(v)) }
	one8 := c.Const(8, 1)
	ff := c.False()

	// ret: method m returns value v (nil for void) in thread state n with shared state (lock, done)
	ret := func(cond *smt.Term, m int, v *smt.Term, n tstate, lock *smt.Term) {
		switch m {
		case 0: // Acquire returned: the caller now holds the lock
			n.hold, n.pc = c.True(), c8(pCS1)
			ups = append(ups, upd{cond, n, lock, gs.counter, gs.done, ff})
		case 1: // TryToAcquire
			a := n
			a.hold, a.pc = c.True(), c8(pCS1)
			ups = append(ups, upd{c.And(cond, v), a, lock, gs.counter, gs.done, ff})
			b := n
			b.k, b.pc = c.Bin("bvadd", n.k, one8), c8(pIdle)
			ups = append(ups, upd{c.And(cond, c.Not(v)), b, lock, gs.counter, gs.done, n.dirty})
		case 2: // Release returned
			n.hold, n.wrote = ff, ff
			n.k, n.pc = c.Bin("bvadd", n.k, one8), c8(pIdle)
			ups = append(ups, upd{cond, n, lock, gs.counter, c.Bin("bvadd", gs.done, c.Const(32, 1)), ff})
		}
	}
	// follow: after node nd of method m completed (thread state n, lock value), go to the next node or return
	var follow func(cond *smt.Term, m int, nd *mnode, n tstate, lock *smt.Term)
	follow = func(cond *smt.Term, m int, nd *mnode, n tstate, lock *smt.Term) {
		if len(nd.edges) == 0 {
			g.fail("%s: node without successor", s.gm.meth[m].name)
			return
		}
		taken := ff
		for _, e := range nd.edges {
			ec := c.And(cond, c.And(c.Not(taken), evalM(c, e.cond, n.r[:])))
			taken = c.Or(taken, evalM(c, e.cond, n.r[:]))
			if e.to.kind == "ret" {
				var v *smt.Term
				if e.to.ret != nil {
					v = evalM(c, e.to.ret, n.r[:])
					if v.W != 0 {
						v = c.Not(c.Eq(v, c.Const(32, 0)))
					}
				} else {
					v = c.True()
				}
				ret(ec, m, v, n, lock)
				continue
			}
			nn := n
			nn.pc, nn.meth, nn.node = c8(pMeth), c8(m), c8(e.to.id)
			ups = append(ups, upd{ec, nn, lock, gs.counter, gs.done, ff})
		}
	}
	// perform: the shared access of node nd of method m, from thread state n with lock word lockIn
	perform := func(at *smt.Term, m int, nd *mnode, ts tstate, lockIn *smt.Term) {
		n := ts
		lock := lockIn
		switch nd.kind {
		case "start", "ret":
			return
		case "load":
			n.r[nd.slot] = lockIn
		case "store":
			lock = evalM(c, nd.a1, ts.r[:])
		case "swap":
			n.r[nd.slot] = lockIn
			lock = evalM(c, nd.a1, ts.r[:])
		case "cas":
			ok := c.Eq(lockIn, evalM(c, nd.a1, ts.r[:]))
			n.r[nd.slot] = c.BoolToBV(ok, 32)
			lock = c.Ite(ok, evalM(c, nd.a2, ts.r[:]), lockIn)
		case "add":
			lock = c.Bin("bvadd", lockIn, evalM(c, nd.a1, ts.r[:]))
			n.r[nd.slot] = lock
		case "asm":
			// thread-local prologue of archAcquireSpinlock up to its first shared access, then that access
			var pro []leaf
			r := regs{ax: c.Var(64, "ax_entry"), bx: ts.bx, cx: ts.cx, zf: ts.zf}
			g.attempts = evalM(c, nd.a1, ts.r[:])
			g.run(0, r, lockIn, c.True(), false, 0, &pro)
			var ls []leaf
			for _, l := range pro {
				if l.pc == pcRet {
					ls = append(ls, l)
					continue
				}
				g.run(l.pc, l.r, l.lock, l.cond, true, 0, &ls)
			}
			for _, l := range ls {
				nn := ts
				nn.meth, nn.node = c8(m), c8(nd.id)
				nn.bx, nn.cx, nn.zf = l.r.bx, l.r.cx, l.r.zf
				nn.dirty = c.Or(ts.dirty, c.Not(c.Eq(l.lock, lockIn)))
				if l.pc == pcRet {
					follow(c.And(at, l.cond), m, nd, nn, l.lock)
				} else {
					nn.pc = c8(l.pc)
					ups = append(ups, upd{c.And(at, l.cond), nn, l.lock, gs.counter, gs.done, ff})
				}
			}
			return
		}
		n.dirty = c.Or(ts.dirty, c.Not(c.Eq(lock, lockIn)))
		follow(at, m, nd, n, lock)
	}
	// enter: begin executing method m. With fold, the thread-local entry is folded into the first shared access
	// of the method (one macro-step); without, the thread parks in front of that access.
	enter := func(cond *smt.Term, m int, n tstate, fold bool) {
		n.dirty = ff
		if !fold {
			follow(cond, m, s.gm.meth[m].root, n, gs.lock)
			return
		}
		taken := ff
		for _, e := range s.gm.meth[m].root.edges {
			ec := c.And(cond, c.And(c.Not(taken), evalM(c, e.cond, n.r[:])))
			taken = c.Or(taken, evalM(c, e.cond, n.r[:]))
			if e.to.kind == "ret" {
				var v *smt.Term = c.True()
				if e.to.ret != nil {
					v = evalM(c, e.to.ret, n.r[:])
					if v.W != 0 {
						v = c.Not(c.Eq(v, c.Const(32, 0)))
					}
				}
				ret(ec, m, v, n, gs.lock)
				continue
			}
			perform(ec, m, e.to, n, gs.lock)
		}
	}

	// idle: start the next lock operation (or finish)
	finished := c.Not(c.Cmp("bvult", ts.k, c8(s.M)))
	{
		n := ts
		n.pc = c8(pDone)
		ups = append(ups, upd{c.And(pcIs(pIdle), finished), n, gs.lock, gs.counter, gs.done, ff})
	}
	isAcq := s.opIsAcquire(t, ts.k)
	enter(c.And(pcIs(pIdle), c.And(c.Not(finished), isAcq)), 0, ts, true)
	enter(c.And(pcIs(pIdle), c.And(c.Not(finished), c.Not(isAcq))), 1, ts, true)

	// inside a Go method: perform the shared access of the current node
	for m := 0; m < 3; m++ {
		for _, nd := range s.gm.meth[m].nodes {
			at := c.And(pcIs(pMeth), c.And(c.Eq(ts.meth, c8(m)), c.Eq(ts.node, c8(nd.id))))
			perform(at, m, nd, ts, gs.lock)
		}
	}
	// assembly macro-steps (the thread is inside an "asm" node of some method)
	for _, p := range s.bounds {
		var ls []leaf
		g.run(p, s.regsAt(p, ts), gs.lock, c.True(), true, 0, &ls)
		for _, l := range ls {
			nn := ts
			nn.bx, nn.cx, nn.zf = l.r.bx, l.r.cx, l.r.zf
			nn.dirty = c.Or(ts.dirty, c.Not(c.Eq(l.lock, gs.lock)))
			if l.pc != pcRet {
				nn.pc = c8(l.pc)
				ups = append(ups, upd{c.And(pcIs(p), l.cond), nn, l.lock, gs.counter, gs.done, ff})
				continue
			}
			for m := 0; m < 3; m++ {
				for _, nd := range s.gm.meth[m].nodes {
					if nd.kind == "asm" {
						follow(c.And(c.And(pcIs(p), l.cond), c.And(c.Eq(ts.meth, c8(m)), c.Eq(ts.node, c8(nd.id)))), m, nd, nn, l.lock)
					}
				}
			}
		}
	}
	// critical section, then Release
	{
		n := ts
		n.pc, n.tmp = c8(pCS2), gs.counter
		ups = append(ups, upd{pcIs(pCS1), n, gs.lock, gs.counter, gs.done, ff})
	}
	{
		// the store of the critical section, then the (thread-local) entry into Release
		save := gs.counter
		gs2 := gs
		gs2.counter = c.Bin("bvadd", ts.tmp, c.Const(32, 1))
		n := ts
		n.wrote = c.True()
		before := len(ups)
		gsSaved := gs
		gs = gs2
		enter(pcIs(pCS2), 2, n, false)
		gs = gsSaved
		for i := before; i < len(ups); i++ {
			ups[i].counter = gs2.counter
		}
		_ = save
	}
	// default: stutter (done threads, unknown pcs)
	ns := gs
	ns.th = append([]tstate(nil), gs.th...)
	cur := ts
	lock, counter, done := gs.lock, gs.counter, gs.done
	tryBad := ff
	for i := len(ups) - 1; i >= 0; i-- {
		u := ups[i]
		cur = iteTS(c, u.cond, u.ts, cur)
		lock = c.Ite(u.cond, u.lock, lock)
		counter = c.Ite(u.cond, u.counter, counter)
		done = c.Ite(u.cond, u.done, done)
		tryBad = c.Or(tryBad, c.And(u.cond, u.tryBad))
	}
	ns.th[t] = cur
	ns.lock, ns.counter, ns.done = lock, counter, done
	return ns, tryBad
}

func (s *system) countHolders(gs gstate) *smt.Term {
	c := s.c
	n := c.Const(8, 0)
	for _, ts := range gs.th {
		n = c.Bin("bvadd", n, c.Ite(s.holder(ts), c.Const(8, 1), c.Const(8, 0)))
	}
	return n
}

// safe: the per-state safety properties.
func (s *system) safe(gs gstate) *smt.Term {
	c := s.c
	ok := c.Not(c.Cmp("bvult", c.Const(8, 1), s.countHolders(gs))) // at most one holder
	allDone := c.True()
	for _, ts := range gs.th {
		allDone = c.And(allDone, c.Eq(ts.pc, c.Const(8, pDone)))
	}
	ok = c.And(ok, c.Implies(allDone, c.Eq(gs.counter, gs.done))) // no lost update
	// a task holds the lock while the lock word reads free: any further try-acquire or acquire would succeed
	// (two holders with one more task, which the bound on tasks may not have room for)
	ok = c.And(ok, c.Implies(c.Eq(gs.lock, c.Const(32, 0)), c.Eq(s.countHolders(gs), c.Const(8, 0))))
	return ok
}

func (s *system) validPC(ts tstate) *smt.Term {
	c := s.c
	v := c.False()
	for _, p := range append(append([]int(nil), s.bounds...), pIdle, pCS1, pCS2, pMeth, pDone) {
		v = c.Or(v, c.Eq(ts.pc, c.Const(8, uint64(p))))
	}
	return v
}

// inv: the label-free invariant used by the induction query.
func (s *system) inv(gs gstate) *smt.Term {
	c := s.c
	ok := c.Or(c.Eq(gs.lock, c.Const(32, 0)), c.Eq(gs.lock, c.Const(32, 1)))
	h := s.countHolders(gs)
	ok = c.And(ok, c.Not(c.Cmp("bvult", c.Const(8, 1), h)))
	ok = c.And(ok, c.Implies(c.Eq(gs.lock, c.Const(32, 0)), c.Eq(h, c.Const(8, 0))))
	stored := c.Const(32, 0)
	for _, ts := range gs.th {
		ok = c.And(ok, s.validPC(ts))
		ok = c.And(ok, s.factsHold(ts))
		ok = c.And(ok, c.Not(c.Cmp("bvult", c.Const(8, uint64(s.M)), ts.k)))
		busy := c.Not(c.Or(c.Eq(ts.pc, c.Const(8, pIdle)), c.Eq(ts.pc, c.Const(8, pDone))))
		ok = c.And(ok, c.Implies(busy, c.Cmp("bvult", ts.k, c.Const(8, uint64(s.M)))))
		ok = c.And(ok, c.Implies(c.Eq(ts.pc, c.Const(8, pCS2)), c.Eq(ts.tmp, gs.counter)))
		// where a thread is and whether it holds the lock
		inMeth := c.Not(c.Or(c.Or(c.Eq(ts.pc, c.Const(8, pIdle)), c.Eq(ts.pc, c.Const(8, pDone))), c.Or(c.Eq(ts.pc, c.Const(8, pCS1)), c.Eq(ts.pc, c.Const(8, pCS2)))))
		inRelease := c.And(inMeth, c.Eq(ts.meth, c.Const(8, 2)))
		inCS := c.Or(c.Eq(ts.pc, c.Const(8, pCS1)), c.Eq(ts.pc, c.Const(8, pCS2)))
		ok = c.And(ok, c.Eq(ts.hold, c.Or(inCS, inRelease)))
		ok = c.And(ok, c.Eq(ts.wrote, inRelease))
		// a valid (method, node) pair while inside a method; assembly only inside an asm node
		validNode := c.False()
		asmNode := c.False()
		for m := 0; m < 3; m++ {
			for _, nd := range s.gm.meth[m].nodes {
				here := c.And(c.Eq(ts.meth, c.Const(8, uint64(m))), c.Eq(ts.node, c.Const(8, uint64(nd.id))))
				if nd.kind != "start" && nd.kind != "ret" {
					validNode = c.Or(validNode, here)
				}
				if nd.kind == "asm" {
					asmNode = c.Or(asmNode, here)
				}
			}
		}
		ok = c.And(ok, c.Implies(inMeth, validNode))
		// no shared access of the current method has happened yet at its first node: the lock word is untouched by it
		first := c.False()
		for m := 0; m < 3; m++ {
			for _, e := range s.gm.meth[m].root.edges {
				first = c.Or(first, c.And(c.Eq(ts.meth, c.Const(8, uint64(m))), c.Eq(ts.node, c.Const(8, uint64(e.to.id)))))
			}
		}
		ok = c.And(ok, c.Implies(c.And(c.Eq(ts.pc, c.Const(8, pMeth)), first), c.Not(ts.dirty)))
		ok = c.And(ok, c.Implies(c.And(inMeth, c.Not(c.Eq(ts.pc, c.Const(8, pMeth)))), asmNode))
		stored = c.Bin("bvadd", stored, c.Ite(ts.wrote, c.Const(32, 1), c.Const(32, 0)))
	}
	ok = c.And(ok, c.Eq(gs.counter, c.Bin("bvadd", gs.done, stored)))
	return ok
}

func (s *system) initial(gs gstate) *smt.Term {
	c := s.c
	ok := c.And(c.Eq(gs.lock, c.Const(32, 0)), c.And(c.Eq(gs.counter, c.Const(32, 0)), c.Eq(gs.done, c.Const(32, 0))))
	for _, ts := range gs.th {
		ok = c.And(ok, c.And(c.Eq(ts.pc, c.Const(8, pIdle)), c.Eq(ts.k, c.Const(8, 0))))
		ok = c.And(ok, c.And(c.Not(ts.hold), c.And(c.Not(ts.wrote), c.Not(ts.dirty))))
	}
	return ok
}

// ---------- solving ----------

type queryResult struct {
	Name    string  `json:"name"`
	Result  string  `json:"result"`
	Solver  string  `json:"solver"`
	Seconds float64 `json:"seconds"`
	Cross   string  `json:"cross_check,omitempty"`
}

func solveOne(script string, solver []string, timeout time.Duration, scratch, tag string) (string, string) {
	f := filepath.Join(scratch, "c08-"+tag+".smt2")
	os.WriteFile(f, []byte(script), 0o644)
	ctx, cancel := context.WithTimeout(context.Background(), timeout)
	defer cancel()
	cmd := exec.CommandContext(ctx, solver[0], append(solver[1:], f)...)
	var out bytes.Buffer
	cmd.Stdout = &out
	cmd.Run()
	txt := out.String()
	first := strings.TrimSpace(strings.SplitN(txt, "\n", 2)[0])
	if first != "sat" && first != "unsat" {
		return "unknown", txt
	}
	if strings.Contains(txt, "(error") && first != "unsat" {
		return "unknown", txt
	}
	return first, txt
}

func newSystem(kernelDir string, T, M int) (*system, error) {
	gm, err := loadGoModel(kernelDir)
	if err != nil {
		return nil, err
	}
	af, err := parseAsm(filepath.Join(kernelDir, "sync", "spinlock_amd64.s"), "archAcquireSpinlock")
	if err != nil {
		return nil, err
	}
	c := smt.NewCtx()
	g := &gen{c: c, af: af, lockAddr: c.Var(64, "LOCKADDR"), attempts: c.Var(32, "ATTEMPTS"), yieldFn: c.Var(64, "YIELDFN")}
	s := &system{g: g, gm: gm, c: c, T: T, M: M}
	for t := 0; t < T; t++ {
		var row []*smt.Term
		for m := 0; m < M; m++ {
			row = append(row, c.Var(0, fmt.Sprintf("op_t%d_m%d", t, m)))
		}
		s.ops = append(s.ops, row)
	}
	s.computeFacts()
	if g.err != nil {
		return nil, g.err
	}
	if len(s.bounds) == 0 {
		return nil, fmt.Errorf("no shared access found in archAcquireSpinlock")
	}
	return s, nil
}

type traceStep struct {
	Step    int      `json:"step"`
	Thread  uint64   `json:"thread"`
	Lock    uint64   `json:"lock"`
	Counter uint64   `json:"counter"`
	Done    uint64   `json:"done"`
	PCs     []string `json:"pcs"`
}

func (s *system) pcName(v uint64) string {
	switch v {
	case pIdle:
		return "idle"
	case pCS1:
		return "holding:read-counter"
	case pCS2:
		return "holding:write-counter"
	case pMeth:
		return "in-lock-method"
	case pDone:
		return "done"
	}
	if int(v) < len(s.g.af.ins) {
		in := s.g.af.ins[v]
		return fmt.Sprintf("asm:%d(%s %s,%s)", in.line, in.op, in.a, in.b)
	}
	return fmt.Sprintf("pc%d", v)
}

// parseModelValues extracts name -> value pairs from a (get-value ...) style output.
func parseModelValues(txt string) map[string]uint64 {
	m := map[string]uint64{}
	for _, line := range strings.Split(txt, "\n") {
		line = strings.TrimSpace(line)
		line = strings.Trim(line, "()")
		f := strings.Fields(line)
		if len(f) < 2 {
			continue
		}
		name, val := f[0], strings.Join(f[1:], " ")
		val = strings.Trim(val, "()")
		switch {
		case strings.HasPrefix(val, "#b"):
			u, _ := strconv.ParseUint(val[2:], 2, 64)
			m[name] = u
		case strings.HasPrefix(val, "#x"):
			u, _ := strconv.ParseUint(val[2:], 16, 64)
			m[name] = u
		case strings.HasPrefix(val, "_ bv"):
			u, _ := strconv.ParseUint(strings.Fields(val[4:])[0], 10, 64)
			m[name] = u
		case val == "true":
			m[name] = 1
		case val == "false":
			m[name] = 0
		}
	}
	return m
}

func writeJSON(path string, v interface{}) {
	b, _ := json.MarshalIndent(v, "", " ")
	os.WriteFile(path, b, 0o644)
}
