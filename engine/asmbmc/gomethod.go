package asmbmc

import (
	"fmt"
	"go/constant"
	"go/token"
	"go/types"

	"golang.org/x/tools/go/ssa"

	"verif/engine/smt"
)

// The Go bodies of the Spinlock methods are compiled into small node graphs: one
// node per shared-memory access (a sync/atomic call on the lock word, or the call
// into the assembly), with the thread-local computation between two accesses
// folded into guarded edges.

type mexpr struct {
	op   string // const | res | eq | ne | ult | and | or | not | band | bor | bxor | add | sub | bool2bv
	c    uint64
	k    int
	a, b *mexpr
	bool bool
}

type medge struct {
	cond *mexpr
	to   *mnode
}

type mnode struct {
	id     int
	kind   string // load | store | swap | cas | add | asm | ret
	a1, a2 *mexpr
	slot   int
	edges  []medge
	ret    *mexpr
}

type method struct {
	name   string
	nodes  []*mnode
	root   *mnode
	nslots int
}

const maxSlots = 3

type compiler struct {
	m     *method
	err   error
	depth int
}

func (cp *compiler) fail(format string, a ...interface{}) {
	if cp.err == nil {
		cp.err = fmt.Errorf(format, a...)
	}
}

func (cp *compiler) newNode(kind string) *mnode {
	n := &mnode{id: len(cp.m.nodes), kind: kind, slot: -1}
	cp.m.nodes = append(cp.m.nodes, n)
	return n
}

func mtrue() *mexpr        { return &mexpr{op: "const", c: 1, bool: true} }
func mnot(a *mexpr) *mexpr { return &mexpr{op: "not", a: a, bool: true} }
func mand(a, b *mexpr) *mexpr {
	if a.op == "const" && a.bool && a.c == 1 {
		return b
	}
	if b.op == "const" && b.bool && b.c == 1 {
		return a
	}
	return &mexpr{op: "and", a: a, b: b, bool: true}
}

func (cp *compiler) value(v ssa.Value, env map[ssa.Value]*mexpr) *mexpr {
	if e, ok := env[v]; ok {
		return e
	}
	if c, ok := v.(*ssa.Const); ok && c.Value != nil {
		switch c.Value.Kind() {
		case constant.Int:
			u, _ := constant.Uint64Val(c.Value)
			if i, ok := constant.Int64Val(c.Value); ok && i < 0 {
				u = uint64(i)
			}
			return &mexpr{op: "const", c: u & 0xffffffff}
		case constant.Bool:
			b := uint64(0)
			if constant.BoolVal(c.Value) {
				b = 1
			}
			return &mexpr{op: "const", c: b, bool: true}
		}
	}
	cp.fail("unsupported value %s (%T) in %s", v.Name(), v, cp.m.name)
	return &mexpr{op: "const"}
}

func isLockAddr(v ssa.Value) bool {
	fa, ok := v.(*ssa.FieldAddr)
	if !ok {
		return false
	}
	_, isParam := fa.X.(*ssa.Parameter)
	return isParam && fa.Field == 0
}

// from compiles the instructions of block b starting at idx; pred is the predecessor block (for phis).
func (cp *compiler) from(b *ssa.BasicBlock, idx int, pred *ssa.BasicBlock, env map[ssa.Value]*mexpr, nres int) []medge {
	cp.depth++
	defer func() { cp.depth-- }()
	if cp.depth > 64 {
		cp.fail("%s: control flow too deep (loop in a lock method?)", cp.m.name)
		return nil
	}
	if idx == 0 {
		// phis
		newEnv := map[ssa.Value]*mexpr{}
		for k, v := range env {
			newEnv[k] = v
		}
		for _, in := range b.Instrs {
			phi, ok := in.(*ssa.Phi)
			if !ok {
				break
			}
			for i, p := range b.Preds {
				if p == pred {
					newEnv[phi] = cp.value(phi.Edges[i], env)
				}
			}
		}
		env = newEnv
	}
	for i := idx; i < len(b.Instrs); i++ {
		switch x := b.Instrs[i].(type) {
		case *ssa.Phi, *ssa.DebugRef, *ssa.FieldAddr:
		case *ssa.BinOp:
			a, bb := cp.value(x.X, env), cp.value(x.Y, env)
			op := map[token.Token]string{token.EQL: "eq", token.NEQ: "ne", token.LSS: "ult", token.AND: "band", token.OR: "bor", token.XOR: "bxor", token.ADD: "add", token.SUB: "sub", token.LAND: "and", token.LOR: "or"}[x.Op]
			if op == "" {
				cp.fail("%s: unsupported operator %s", cp.m.name, x.Op)
				return nil
			}
			e := &mexpr{op: op, a: a, b: bb}
			if op == "eq" || op == "ne" || op == "ult" {
				e.bool = true
			}
			if a.bool && (op == "band" || op == "bor") {
				e.bool = true
				e.op = map[string]string{"band": "and", "bor": "or"}[op]
			}
			env[x] = e
		case *ssa.UnOp:
			if x.Op != token.NOT {
				cp.fail("%s: unsupported unary operator %s", cp.m.name, x.Op)
				return nil
			}
			env[x] = mnot(cp.value(x.X, env))
		case *ssa.Call:
			callee := x.Common().StaticCallee()
			if callee == nil {
				cp.fail("%s: dynamic call", cp.m.name)
				return nil
			}
			args := x.Common().Args
			name := callee.String()
			if callee.Name() == "archAcquireSpinlock" {
				name = "archAcquireSpinlock"
			}
			if len(args) == 0 || !isLockAddr(args[0]) {
				cp.fail("%s: call %s does not operate on the lock word", cp.m.name, name)
				return nil
			}
			var n *mnode
			hasRes := false
			switch name {
			case "sync/atomic.LoadUint32":
				n, hasRes = cp.newNode("load"), true
			case "sync/atomic.StoreUint32":
				n = cp.newNode("store")
				n.a1 = cp.value(args[1], env)
			case "sync/atomic.SwapUint32":
				n, hasRes = cp.newNode("swap"), true
				n.a1 = cp.value(args[1], env)
			case "sync/atomic.CompareAndSwapUint32":
				n, hasRes = cp.newNode("cas"), true
				n.a1, n.a2 = cp.value(args[1], env), cp.value(args[2], env)
			case "sync/atomic.AddUint32":
				n, hasRes = cp.newNode("add"), true
				n.a1 = cp.value(args[1], env)
			case "archAcquireSpinlock":
				n = cp.newNode("asm")
				n.a1 = cp.value(args[1], env)
				if n.a1.op != "const" {
					cp.fail("%s: attempts argument of archAcquireSpinlock is not a constant", cp.m.name)
				}
			default:
				cp.fail("%s: unsupported call %s", cp.m.name, name)
				return nil
			}
			env2 := map[ssa.Value]*mexpr{}
			for k, v := range env {
				env2[k] = v
			}
			nr := nres
			if hasRes {
				if nres >= maxSlots {
					cp.fail("%s: more than %d atomic results on one path", cp.m.name, maxSlots)
					return nil
				}
				n.slot = nres
				r := &mexpr{op: "res", k: nres}
				if n.kind == "cas" {
					r = &mexpr{op: "ne", a: r, b: &mexpr{op: "const"}, bool: true}
				}
				env2[x] = r
				nr++
				if nr > cp.m.nslots {
					cp.m.nslots = nr
				}
			}
			n.edges = cp.from(b, i+1, pred, env2, nr)
			return []medge{{mtrue(), n}}
		case *ssa.If:
			c := cp.value(x.Cond, env)
			var out []medge
			for _, e := range cp.from(b.Succs[0], 0, b, env, nres) {
				out = append(out, medge{mand(c, e.cond), e.to})
			}
			for _, e := range cp.from(b.Succs[1], 0, b, env, nres) {
				out = append(out, medge{mand(mnot(c), e.cond), e.to})
			}
			return out
		case *ssa.Jump:
			return cp.from(b.Succs[0], 0, b, env, nres)
		case *ssa.Return:
			n := cp.newNode("ret")
			if len(x.Results) == 1 {
				n.ret = cp.value(x.Results[0], env)
			} else if len(x.Results) > 1 {
				cp.fail("%s: multiple results", cp.m.name)
			}
			return []medge{{mtrue(), n}}
		default:
			cp.fail("%s: unsupported instruction %s (%T)", cp.m.name, x, x)
			return nil
		}
	}
	cp.fail("%s: block without terminator", cp.m.name)
	return nil
}

func compileMethod(fn *ssa.Function) (*method, error) {
	m := &method{name: fn.String()}
	cp := &compiler{m: m}
	start := cp.newNode("start") // pseudo node: its edges lead to the first real node
	start.edges = cp.from(fn.Blocks[0], 0, nil, map[ssa.Value]*mexpr{}, 0)
	m.root = start
	if cp.err != nil {
		return nil, cp.err
	}
	if len(m.nodes) > 60 {
		return nil, fmt.Errorf("%s: too many nodes", m.name)
	}
	return m, nil
}

// eval turns an expression into a term over the result slots.
func evalM(c *smt.Ctx, e *mexpr, slots []*smt.Term) *smt.Term {
	bv := func(x *mexpr) *smt.Term {
		t := evalM(c, x, slots)
		if t.W == 0 {
			return c.BoolToBV(t, 32)
		}
		return t
	}
	bl := func(x *mexpr) *smt.Term {
		t := evalM(c, x, slots)
		if t.W != 0 {
			return c.Not(c.Eq(t, c.Const(32, 0)))
		}
		return t
	}
	switch e.op {
	case "const":
		if e.bool {
			return c.Bool(e.c != 0)
		}
		return c.Const(32, e.c)
	case "res":
		return slots[e.k]
	case "eq":
		if e.a.bool || e.b.bool {
			return c.Eq(bl(e.a), bl(e.b))
		}
		return c.Eq(bv(e.a), bv(e.b))
	case "ne":
		if e.a.bool || e.b.bool {
			return c.Not(c.Eq(bl(e.a), bl(e.b)))
		}
		return c.Not(c.Eq(bv(e.a), bv(e.b)))
	case "ult":
		return c.Cmp("bvult", bv(e.a), bv(e.b))
	case "and":
		return c.And(bl(e.a), bl(e.b))
	case "or":
		return c.Or(bl(e.a), bl(e.b))
	case "not":
		return c.Not(bl(e.a))
	case "band":
		return c.Bin("bvand", bv(e.a), bv(e.b))
	case "bor":
		return c.Bin("bvor", bv(e.a), bv(e.b))
	case "bxor":
		return c.Bin("bvxor", bv(e.a), bv(e.b))
	case "add":
		return c.Bin("bvadd", bv(e.a), bv(e.b))
	case "sub":
		return c.Bin("bvsub", bv(e.a), bv(e.b))
	}
	panic("asmbmc: eval " + e.op)
}

var _ = types.Typ
