package asmbmc

import (
	"fmt"
	"go/types"
	"os"
	"os/exec"
	"path/filepath"
	"sort"
	"strings"
	"time"

	"verif/engine/smt"
)

func typesPtr(t types.Type) types.Type { return types.NewPointer(t) }

type named struct {
	name string
	t    *smt.Term
}

// render prints a standalone problem; watch terms are reported with get-value.
func render(roots []*smt.Term, watch []named, qfbv bool) string {
	var sb strings.Builder
	sb.WriteString("(set-option :produce-models true)\n(set-logic ALL)\n")
	seen := map[int]bool{}
	all := append([]*smt.Term(nil), roots...)
	for _, w := range watch {
		all = append(all, w.t)
	}
	smt.Walk(all, seen, func(t *smt.Term) {
		switch t.Op {
		case "const", "true", "false":
		case "var":
			fmt.Fprintf(&sb, "(declare-const %s %s)\n", t.Name, smt.SortName(t.W))
		default:
			fmt.Fprintf(&sb, "(define-fun t%d () %s %s)\n", t.ID, smt.SortName(t.W), t.Def())
		}
	})
	for _, r := range roots {
		fmt.Fprintf(&sb, "(assert %s)\n", r.Ref())
	}
	if qfbv {
		sb.WriteString("(check-sat-using qfbv)\n")
	} else {
		sb.WriteString("(check-sat)\n")
	}
	for _, w := range watch {
		fmt.Fprintf(&sb, "(get-value (%s))\n", w.t.Ref())
	}
	return sb.String()
}

func watchValues(txt string, watch []named) map[string]uint64 {
	vals := map[string]uint64{}
	lines := strings.Split(txt, "\n")
	i := 0
	for _, l := range lines[1:] {
		l = strings.TrimSpace(l)
		if !strings.HasPrefix(l, "((") || i >= len(watch) {
			continue
		}
		inner := strings.TrimSuffix(strings.TrimPrefix(l, "(("), "))")
		sp := strings.Index(inner, " ")
		if sp < 0 {
			continue
		}
		m := parseModelValues("(x " + inner[sp+1:] + ")")
		vals[watch[i].name] = m["x"]
		i++
	}
	return vals
}

type Opts struct {
	Tier     string
	VerifDir string
	Seed     int
	As       string // property id to report under (default C08); other ids run the model as that property's lock premise
}

// Run decides C08 and returns the process exit code.
func Run(o Opts) int {
	t0 := time.Now()
	as := o.As
	if as == "" {
		as = "C08"
	}
	outDir := filepath.Join(o.VerifDir, "out", "C08")
	evPath := filepath.Join(o.VerifDir, "evidence", "C08.json")
	if as != "C08" {
		// run as the lock premise of another property: evidence goes to that property's out directory
		outDir = filepath.Join(o.VerifDir, "out", as, "lock")
		evPath = filepath.Join(outDir, "evidence.json")
	}
	os.RemoveAll(outDir)
	os.MkdirAll(filepath.Join(outDir, "replay"), 0o755)
	os.MkdirAll(filepath.Dir(evPath), 0o755)
	var results []queryResult
	var inconclusive []string
	violations := 0
	var violationLines []string
	var inductionFailures []string
	states, transitions := 0, 0
	var samples []interface{}
	var funcs []string
	bounds := map[string]interface{}{}

	type bmcCfg struct{ T, M, S int }
	bmcs := []bmcCfg{{2, 1, 13}}
	indT := []int{2, 3}
	if o.Tier == "thorough" {
		bmcs = append(bmcs, bmcCfg{2, 2, 23}, bmcCfg{3, 1, 19})
		indT = []int{2, 3, 4}
	}
	bounds["bmc"] = bmcs
	bounds["induction_threads"] = indT
	timeout := 120 * time.Second
	if o.Tier == "thorough" {
		timeout = 600 * time.Second
	}

	decide := func(name string, roots []*smt.Term, watch []named) (string, string) {
		ts := time.Now()
		// race the solvers; the first definite answer wins
		type ans struct{ r, txt, solver string }
		ch := make(chan ans, 3)
		go func() {
			r, txt := solveOne(render(roots, watch, false), []string{"z3-new"}, timeout, outDir, name+"-z3new")
			ch <- ans{r, txt, "z3 5.1.0"}
		}()
		go func() {
			r, txt := solveOne(render(roots, watch, true), []string{"z3"}, timeout, outDir, name+"-z3")
			ch <- ans{r, txt, "z3 4.8.12 (qfbv)"}
		}()
		go func() {
			r, txt := solveOne(render(roots, watch, false), []string{"cvc5", "--lang=smt2", "--produce-models"}, timeout, outDir, name+"-cvc5")
			ch <- ans{r, txt, "cvc5 1.0"}
		}()
		r, txt, solver := "unknown", "", "none"
		var others []ans
		for i := 0; i < 3; i++ {
			a := <-ch
			if a.r != "unknown" && r == "unknown" {
				r, txt, solver = a.r, a.txt, a.solver
				// give the remaining solvers a short grace period for the cross-check
				grace := time.After(4 * time.Second)
			wait:
				for j := i + 1; j < 3; j++ {
					select {
					case b := <-ch:
						others = append(others, b)
					case <-grace:
						break wait
					}
				}
				break
			}
		}
		exec.Command("pkill", "-f", "c08-"+name+"-").Run()
		qr := queryResult{Name: name, Result: r, Solver: solver, Seconds: time.Since(ts).Seconds()}
		// cross-check: every other solver that answered in time must agree
		for _, b := range others {
			if b.r == "unknown" {
				continue
			}
			qr.Cross += b.solver + ": " + b.r + "; "
			if b.r != r {
				inconclusive = append(inconclusive, fmt.Sprintf("%s: solvers disagree (%s %s vs %s %s)", name, solver, r, b.solver, b.r))
				r = "unknown"
			}
		}
		results = append(results, qr)
		fmt.Printf("  %-34s %-7s %-18s %.1fs\n", name, r, solver, qr.Seconds)
		return r, txt
	}

	kernelDir := "/repo/kernel"
	if d := os.Getenv("VERIF_KERNEL_DIR"); d != "" {
		kernelDir = d
	}
	for _, b := range bmcs {
		s, err := newSystem(kernelDir, b.T, b.M)
		if err != nil {
			inconclusive = append(inconclusive, "encoding: "+err.Error())
			break
		}
		funcs = s.gm.funcs
		c := s.c
		s0 := s.freshState("0")
		pre := []*smt.Term{s.initial(s0), c.Not(c.Eq(s.g.lockAddr, c.Const(64, 0)))}
		cur := s0
		bad := c.Not(s.safe(cur))
		var watch []named
		addWatch := func(i int, gs gstate) {
			watch = append(watch, named{fmt.Sprintf("lock@%d", i), gs.lock}, named{fmt.Sprintf("counter@%d", i), gs.counter}, named{fmt.Sprintf("done@%d", i), gs.done})
			for t, ts := range gs.th {
				watch = append(watch, named{fmt.Sprintf("pc%d@%d", t, i), ts.pc})
			}
		}
		addWatch(0, cur)
		for i := 0; i < b.S; i++ {
			sched := c.Var(8, fmt.Sprintf("sched_%d", i))
			pre = append(pre, c.Cmp("bvult", sched, c.Const(8, uint64(b.T))))
			watch = append(watch, named{fmt.Sprintf("sched@%d", i), sched})
			var next gstate
			tb := c.False()
			for t := b.T - 1; t >= 0; t-- {
				ns, tbad := s.step(cur, t)
				sel := c.Eq(sched, c.Const(8, uint64(t)))
				tb = c.Or(tb, c.And(sel, tbad))
				if t == b.T-1 {
					next = ns
					continue
				}
				m := gstate{lock: c.Ite(sel, ns.lock, next.lock), counter: c.Ite(sel, ns.counter, next.counter), done: c.Ite(sel, ns.done, next.done)}
				for k := range ns.th {
					m.th = append(m.th, iteTS(c, sel, ns.th[k], next.th[k]))
				}
				next = m
			}
			cur = next
			addWatch(i+1, cur)
			bad = c.Or(bad, c.Or(c.Not(s.safe(cur)), tb))
			for _, ts := range cur.th {
				bad = c.Or(bad, c.Not(s.factsHold(ts)))
			}
		}
		if s.g.err != nil {
			inconclusive = append(inconclusive, "encoding: "+s.g.err.Error())
			break
		}
		name := fmt.Sprintf("Q1-bmc-T%d-M%d-S%d", b.T, b.M, b.S)
		r, txt := decide(name, append(append([]*smt.Term(nil), pre...), bad), watch)
		transitions += b.S * b.T
		switch r {
		case "unsat":
			states++
		case "sat":
			vals := watchValues(txt, watch)
			var trace []traceStep
			for i := 0; i <= b.S; i++ {
				st := traceStep{Step: i, Lock: vals[fmt.Sprintf("lock@%d", i)], Counter: vals[fmt.Sprintf("counter@%d", i)], Done: vals[fmt.Sprintf("done@%d", i)]}
				if i < b.S {
					st.Thread = vals[fmt.Sprintf("sched@%d", i)]
				}
				for t := 0; t < b.T; t++ {
					st.PCs = append(st.PCs, s.pcName(vals[fmt.Sprintf("pc%d@%d", t, i)]))
				}
				trace = append(trace, st)
			}
			violations++
			path := filepath.Join(outDir, "replay", name+".json")
			writeJSON(path, map[string]interface{}{"query": name, "meaning": "a schedule after which two tasks hold the lock, an update is lost, a failed TryToAcquire changed the lock word, or a register fact fails", "trace": trace})
			violationLines = append(violationLines, fmt.Sprintf("VIOLATION property="+as+" replay=%s", path))
			samples = append(samples, map[string]interface{}{"query": name, "counterexample_schedule": trace})
		default:
			inconclusive = append(inconclusive, name+": solver gave no answer")
		}
		// vacuity witness: the bounded model can run every thread to completion
		allDone := c.True()
		for _, ts := range cur.th {
			allDone = c.And(allDone, c.Eq(ts.pc, c.Const(8, pDone)))
		}
		wname := fmt.Sprintf("W1-reach-all-done-T%d-M%d-S%d", b.T, b.M, b.S)
		wr, wtxt := decide(wname, append(append([]*smt.Term(nil), pre...), allDone), watch)
		if wr != "sat" {
			inconclusive = append(inconclusive, wname+": bounded model cannot complete every thread (vacuous bound)")
		} else if len(samples) < 3 {
			vals := watchValues(wtxt, watch)
			var sch []uint64
			for i := 0; i < b.S; i++ {
				sch = append(sch, vals[fmt.Sprintf("sched@%d", i)])
			}
			samples = append(samples, map[string]interface{}{"query": wname, "completing_schedule": sch, "final_counter": vals[fmt.Sprintf("counter@%d", b.S)]})
		}
	}

	// Q2: one-step induction from an arbitrary state satisfying the invariant
	for _, T := range indT {
		s, err := newSystem(kernelDir, T, 2)
		if err != nil {
			inconclusive = append(inconclusive, "encoding: "+err.Error())
			break
		}
		c := s.c
		st := s.freshState("pre")
		nz := c.Not(c.Eq(s.g.lockAddr, c.Const(64, 0)))
		// base case
		r, _ := decide(fmt.Sprintf("Q2-init-implies-inv-T%d", T), []*smt.Term{s.initial(st), c.Not(s.inv(st))}, nil)
		if r == "sat" {
			inconclusive = append(inconclusive, fmt.Sprintf("Q2 base case fails for T=%d: the invariant does not hold initially", T))
		} else if r != "unsat" {
			inconclusive = append(inconclusive, fmt.Sprintf("Q2 base case T=%d: no answer", T))
		}
		for t := 0; t < T; t++ {
			ns, tbad := s.step(st, t)
			if s.g.err != nil {
				inconclusive = append(inconclusive, "encoding: "+s.g.err.Error())
				break
			}
			goal := c.And(c.And(s.inv(ns), s.safe(ns)), c.Not(tbad))
			var watch []named
			watch = append(watch, named{"lock", st.lock}, named{"counter", st.counter}, named{"done", st.done})
			for k, ts := range st.th {
				watch = append(watch, named{fmt.Sprintf("pc%d", k), ts.pc}, named{fmt.Sprintf("k%d", k), ts.k}, named{fmt.Sprintf("bx%d", k), ts.bx},
					named{fmt.Sprintf("meth%d", k), ts.meth}, named{fmt.Sprintf("node%d", k), ts.node}, named{fmt.Sprintf("hold%d", k), ts.hold}, named{fmt.Sprintf("wrote%d", k), ts.wrote})
			}
			name := fmt.Sprintf("Q2-step-T%d-thread%d", T, t)
			r, txt := decide(name, []*smt.Term{s.inv(st), s.safe(st), nz, c.Not(goal)}, watch)
			transitions++
			switch r {
			case "unsat":
				states++
			case "sat":
				vals := watchValues(txt, watch)
				pre := map[string]interface{}{"lock": vals["lock"], "counter": vals["counter"], "done": vals["done"], "moving_thread": t}
				for k := range st.th {
					pre[fmt.Sprintf("thread%d", k)] = fmt.Sprintf("%s method=%d node=%d hold=%d wrote=%d k=%d", s.pcName(vals[fmt.Sprintf("pc%d", k)]), vals[fmt.Sprintf("meth%d", k)], vals[fmt.Sprintf("node%d", k)], vals[fmt.Sprintf("hold%d", k)], vals[fmt.Sprintf("wrote%d", k)], vals[fmt.Sprintf("k%d", k)])
				}
				path := filepath.Join(outDir, "replay", name+".json")
				writeJSON(path, map[string]interface{}{"query": name, "meaning": "a state satisfying the lock invariant from which one step of the real code breaks mutual exclusion / loses an update / breaks the invariant", "pre_state": pre})
				inductionFailures = append(inductionFailures, path)
				samples = append(samples, map[string]interface{}{"query": name, "pre_state": pre})
			default:
				inconclusive = append(inconclusive, name+": solver gave no answer")
			}
		}
		// a release really frees the lock: holder releases, then another task's TryToAcquire succeeds
		{
			// thread 0 is inside Release: run it to completion (at most 4 macro-steps), then thread 1 tries (at most 4 macro-steps)
			iteGS := func(cond *smt.Term, a, b gstate) gstate {
				r := gstate{lock: c.Ite(cond, a.lock, b.lock), counter: c.Ite(cond, a.counter, b.counter), done: c.Ite(cond, a.done, b.done)}
				for k := range a.th {
					r.th = append(r.th, iteTS(c, cond, a.th[k], b.th[k]))
				}
				return r
			}
			cur := st
			for i := 0; i < 4; i++ {
				nx, _ := s.step(cur, 0)
				cur = iteGS(cur.th[0].hold, nx, cur)
			}
			released := c.Not(cur.th[0].hold)
			s2 := cur
			for i := 0; i < 4; i++ {
				nx, _ := s.step(s2, 1)
				moving := c.Or(c.Eq(s2.th[1].pc, c.Const(8, pIdle)), c.Eq(s2.th[1].pc, c.Const(8, pMeth)))
				if i > 0 {
					moving = c.Eq(s2.th[1].pc, c.Const(8, pMeth))
				}
				s2 = iteGS(moving, nx, s2)
			}
			inRel := c.And(c.Eq(st.th[0].pc, c.Const(8, pMeth)), c.Eq(st.th[0].meth, c.Const(8, 2)))
			hyp := []*smt.Term{s.inv(st), nz, inRel, c.Eq(st.th[1].pc, c.Const(8, pIdle)), c.Cmp("bvult", st.th[1].k, c.Const(8, 2)), c.Not(s.opIsAcquire(1, st.th[1].k)), released}
			r, _ := decide(fmt.Sprintf("Q2-release-frees-lock-T%d", T), append(hyp, c.Not(c.Eq(s2.th[1].pc, c.Const(8, pCS1)))), nil)
			if r == "sat" {
				violations++
				path := filepath.Join(outDir, "replay", fmt.Sprintf("Q2-release-frees-lock-T%d.json", T))
				writeJSON(path, map[string]interface{}{"meaning": "after the holder's Release another task's TryToAcquire still fails: the lock cannot be taken again"})
				violationLines = append(violationLines, fmt.Sprintf("VIOLATION property="+as+" replay=%s", path))
			} else if r != "unsat" {
				inconclusive = append(inconclusive, "release-frees-lock query: no answer")
			} else {
				states++
			}
		}
		// after a release the lock can be taken again: from any invariant state with the lock free, TryToAcquire succeeds
		{
			cur := st
			for i := 0; i < 4; i++ {
				nx, _ := s.step(cur, 0)
				moving := c.Eq(cur.th[0].pc, c.Const(8, pMeth))
				if i == 0 {
					moving = c.True()
				}
				g2 := gstate{lock: c.Ite(moving, nx.lock, cur.lock), counter: c.Ite(moving, nx.counter, cur.counter), done: c.Ite(moving, nx.done, cur.done)}
				for k := range nx.th {
					g2.th = append(g2.th, iteTS(c, moving, nx.th[k], cur.th[k]))
				}
				cur = g2
			}
			ns := cur
			hyp := []*smt.Term{s.inv(st), nz, c.Eq(st.lock, c.Const(32, 0)), c.Eq(st.th[0].pc, c.Const(8, pIdle)), c.Cmp("bvult", st.th[0].k, c.Const(8, 2)), c.Not(s.opIsAcquire(0, st.th[0].k))}
			r, _ := decide(fmt.Sprintf("Q2-free-lock-can-be-taken-T%d", T), append(hyp, c.Not(c.Eq(ns.th[0].pc, c.Const(8, pCS1)))), nil)
			if r == "sat" {
				violations++
				path := filepath.Join(outDir, "replay", fmt.Sprintf("Q2-free-lock-T%d.json", T))
				writeJSON(path, map[string]interface{}{"meaning": "TryToAcquire on a free lock does not return true"})
				violationLines = append(violationLines, fmt.Sprintf("VIOLATION property="+as+" replay=%s", path))
			} else if r != "unsat" {
				inconclusive = append(inconclusive, "free-lock query: no answer")
			} else {
				states++
			}
			// progress of a blocking acquire: with the lock word free and nobody else moving, a thread that is
			// anywhere inside Acquire gets the lock within acqSteps macro-steps (it does not spin past a free lock)
			{
				const acqSteps = 12
				cur := st
				for i := 0; i < acqSteps; i++ {
					nx, _ := s.step(cur, 0)
					moving := c.Not(c.Eq(cur.th[0].pc, c.Const(8, pCS1)))
					g2 := gstate{lock: c.Ite(moving, nx.lock, cur.lock), counter: c.Ite(moving, nx.counter, cur.counter), done: c.Ite(moving, nx.done, cur.done)}
					for k := range nx.th {
						g2.th = append(g2.th, iteTS(c, moving, nx.th[k], cur.th[k]))
					}
					cur = g2
				}
				inAcq := c.And(c.Eq(st.th[0].pc, c.Const(8, pIdle)), c.And(c.Cmp("bvult", st.th[0].k, c.Const(8, uint64(s.M))), s.opIsAcquire(0, st.th[0].k)))
				inAcq = c.Or(inAcq, c.And(c.Eq(st.th[0].pc, c.Const(8, pMeth)), c.Eq(st.th[0].meth, c.Const(8, 0))))
				for _, p := range s.bounds {
					inAcq = c.Or(inAcq, c.And(c.Eq(st.th[0].pc, c.Const(8, uint64(p))), c.Eq(st.th[0].meth, c.Const(8, 0))))
				}
				hyp := []*smt.Term{s.inv(st), s.safe(st), nz, c.Eq(st.lock, c.Const(32, 0)), inAcq}
				name := fmt.Sprintf("Q2-acquire-progress-T%d", T)
				w0 := []named{{"pc0", st.th[0].pc}, {"meth0", st.th[0].meth}, {"node0", st.th[0].node}, {"cx0", st.th[0].cx}, {"bx0", st.th[0].bx}}
				r, txt := decide(name, append(hyp, c.Not(c.Eq(cur.th[0].pc, c.Const(8, pCS1)))), w0)
				if r == "sat" {
					violations++
					path := filepath.Join(outDir, "replay", name+".json")
					writeJSON(path, map[string]interface{}{"query": name, "meaning": fmt.Sprintf("a blocking Acquire that runs alone for %d macro-steps with the lock word free does not take the lock (after a release the lock cannot be taken again)", acqSteps), "pre_state": func() map[string]interface{} {
						v := watchValues(txt, w0)
						return map[string]interface{}{"lock": 0, "thread0": fmt.Sprintf("%s method=%d node=%d bx=%d cx=%d", s.pcName(v["pc0"]), v["meth0"], v["node0"], v["bx0"], v["cx0"])}
					}()})
					violationLines = append(violationLines, fmt.Sprintf("VIOLATION property="+as+" replay=%s", path))
				} else if r != "unsat" {
					inconclusive = append(inconclusive, name+": no answer")
				} else {
					states++
				}
			}
		}
	}

	// an induction counterexample may start in an unreachable state: it is a violation only together with a
	// bounded-model counterexample (a real schedule from the initial state); alone it is inconclusive
	if len(inductionFailures) > 0 {
		if violations > 0 {
			for _, p := range inductionFailures {
				violations++
				violationLines = append(violationLines, fmt.Sprintf("VIOLATION property="+as+" replay=%s", p))
			}
		} else {
			inconclusive = append(inconclusive, fmt.Sprintf("one-step induction fails (%d queries) but the bounded model finds no schedule: the invariant is not inductive for this code, or the bound is too small: %s", len(inductionFailures), inductionFailures[0]))
		}
	}
	exit := 0
	for _, l := range violationLines {
		fmt.Println(l)
		exit = 1
	}
	if exit == 0 && len(inconclusive) > 0 {
		exit = 3
	}
	for _, s := range inconclusive {
		fmt.Println("INCONCLUSIVE:", s)
	}
	sort.Strings(funcs)
	if len(samples) == 0 {
		samples = []interface{}{"no query produced a sample"}
	}
	var solverTime float64
	for _, r := range results {
		solverTime += r.Seconds
	}
	ev := map[string]interface{}{
		"property_id": as, "tier": o.Tier, "seed": o.Seed, "level": "model_checking",
		"coverage": map[string]interface{}{
			"states": states, "transitions": transitions, "traces_validated_against_impl": 0, "samples": samples,
			"rule":              "state = one discharged query (a bounded model over all schedules of its length, or one inductive step from all invariant states); transition = scheduler steps x threads encoded",
			"functions_encoded": funcs, "bounds": bounds, "queries": results, "solver_time_s": solverTime,
			"technique":   "transition system generated from spinlock_amd64.s and the go/ssa of the Spinlock methods (macro-step folding of thread-local instructions), bounded model checking with a symbolic schedule plus one-step induction, decided by z3 (cross-checked by z3 5.1.0)",
			"not_covered": []string{"fairness/liveness of Acquire under an unfair schedule (only solo progress on a free lock is checked)", "more threads than listed", "yieldFn is modelled as a call without effect on the lock word", "native replay: a schedule at instruction granularity cannot be forced on real hardware; counterexamples are reported as traces"},
		},
		"assumptions": []string{"sequential consistency + atomic locked XCHG (x86-TSO differs only by store->load reordering through the store buffer, which locked instructions drain)", "aligned 32-bit MOVL is atomic", "client protocol: release only by the holder, no re-acquire while holding",
			"z3 4.8.12 / z3 5.1.0 / cvc5 answers"},
		"wall_s": time.Since(t0).Seconds(), "violations": violations, "inconclusive": inconclusive,
	}
	writeJSON(evPath, ev)
	verdict := map[int]string{0: "HOLDS (within bounds)", 1: "VIOLATION", 3: "INCONCLUSIVE"}[exit]
	fmt.Printf("["+as+" lock model] %s wall=%.1fs\n", verdict, time.Since(t0).Seconds())
	return exit
}
